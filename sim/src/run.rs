//! Per-step pipeline: observe, execute under the fault plan, observe, derive the transfer ledger, run the
//! oracle of the selected property, run its probes in forks. Used identically by generation and replay.

use serde::{Deserialize, Serialize};
use serde_json::{json, Value};
use std::collections::{BTreeMap, BTreeSet};
use std::collections::hash_map::DefaultHasher;
use std::hash::{Hash, Hasher};

use crate::obs::{observe, pi, pu, Obs};
use crate::oracles;
use crate::types::*;
use crate::world::{ExecOut, World};

#[derive(Clone, Debug, PartialEq, Eq)]
pub struct Xfer {
    pub from: String,
    pub to: String,
    pub amount: U,
}

#[derive(Serialize, Deserialize, Clone, Debug, PartialEq)]
pub struct Violation {
    pub property: String,
    pub clause: String,
    /// property:clause:discriminator - what the known-findings file matches on
    pub signature: String,
    pub step: usize,
    pub details: Value,
}

#[derive(Clone, Debug)]
pub struct PriceRec {
    pub height: u64,
    pub time: u64,
    pub price: U,
    pub q: U,
    pub b: U,
}

/// What the harness remembers about the history (never read back from contract internals).
#[derive(Clone, Debug, Default)]
pub struct Model {
    pub paused: bool,
    pub b0: Vec<U>,
    pub size0: Vec<i128>,
    /// end-of-block price record per vAMM
    pub prices: Vec<Vec<PriceRec>>,
    /// largest quote reserve seen at a given net size (C01 whole-history clause)
    pub q_at_size: Vec<BTreeMap<i128, U>>,
    /// submissions to the repository's price feed per market: (timestamp, price)
    pub feed: Vec<Vec<(u64, U)>>,
    /// height of the last successful liquidation per vAMM
    pub liq_block: Vec<u64>,
    /// swaps seen in the current block per vAMM
    pub trades_in_block: Vec<(u64, u32)>,
    /// (role, account) pairs that held a role earlier and lost it
    pub former: BTreeSet<(String, String)>,
    /// successful settlements per vAMM
    pub settlements: Vec<u32>,
    /// (vAMM, trader) -> height of the trader's last successful trade that left a position record (C16 reference;
    /// kept from the history, not read from the stored position)
    pub touched: BTreeMap<(usize, String), u64>,
    /// per vAMM: the insurance fund it was *given* (instantiate message / successful UpdateConfig), kept from the
    /// history rather than read back from the vAMM's config
    pub vamm_if: Vec<Option<String>>,
    /// per vAMM: cumulative premium fraction accumulated by the harness from its own reference premium of every
    /// successful settlement (None once a settlement could not be referenced)
    pub cum_ref: Vec<Option<i128>>,
    /// the fee pool the engine was last configured with, from the history of accepted calls (None: as deployed)
    pub fee_pool_ref: Option<String>,
    /// the whitelist, from the history of accepted AddWhitelist / RemoveWhitelist calls
    pub whitelist: BTreeSet<String>,
    /// the insurance fund's registry as the history of accepted AddVamm / RemoveVamm calls implies it
    pub registry_ref: BTreeSet<String>,
    /// the registries of the insurance funds the engine is not configured with at the moment (by fund address), each
    /// as the history of accepted calls left it
    pub registry_parked: BTreeMap<String, BTreeSet<String>>,
    /// whether each vAMM is open, from the history of accepted SetOpen / ShutdownVamms calls
    pub open_ref: Vec<bool>,
    /// configuration values as the history of accepted configuration calls leaves them (named field -> value):
    /// per vAMM ("holding_cap", "oi_cap", "toll", "spread", "fluct", "twap_interval") and for the engine
    /// ("initial", "maintenance", "partial", "liq_fee")
    pub vamm_cfg_ref: Vec<BTreeMap<&'static str, U>>,
    pub eng_cfg_ref: BTreeMap<&'static str, U>,
}

/// Evidence and violation collector for one run.
#[derive(Clone, Debug, Default)]
pub struct Ev {
    pub evaluations: u64,
    pub nontrivial_keys: BTreeSet<u64>,
    pub counters: BTreeMap<String, u64>,
    pub samples: Vec<Value>,
    pub sample_keys: BTreeSet<u64>,
    pub violations: Vec<Violation>,
    pub seen_sigs: BTreeSet<String>,
    pub harness_errors: Vec<String>,
    pub forks: u64,
    pub cur_step: usize,
    pub property: String,
    /// parts of the state a reported violation has already shown to be off (no cascades)
    pub poisoned: BTreeSet<String>,
}

pub fn hkey<T: Hash>(t: &T) -> u64 {
    let mut h = DefaultHasher::new();
    t.hash(&mut h);
    h.finish()
}

impl Ev {
    pub fn count(&mut self, name: &str) {
        *self.counters.entry(name.to_string()).or_insert(0) += 1;
    }
    pub fn add(&mut self, name: &str, n: u64) {
        *self.counters.entry(name.to_string()).or_insert(0) += n;
    }
    /// one evaluation of the property's oracle; `key` identifies the case class when it is non-trivial
    pub fn eval<T: Hash>(&mut self, nontrivial: bool, key: &T, sample: impl FnOnce() -> Value) {
        self.evaluations += 1;
        if nontrivial {
            let k = hkey(key);
            if self.nontrivial_keys.insert(k) && self.samples.len() < 5 && self.sample_keys.insert(k) {
                self.samples.push(sample());
            }
        }
    }
    pub fn violation(&mut self, clause: &str, disc: &str, details: Value) {
        let sig = format!("{}:{}:{}", self.property, clause, disc);
        // the same signature is reported at most once per run (no cascades)
        if !self.seen_sigs.insert(sig.clone()) {
            return;
        }
        self.violations.push(Violation {
            property: self.property.clone(),
            clause: clause.to_string(),
            signature: sig,
            step: self.cur_step,
            details,
        });
    }
    pub fn harness_error(&mut self, msg: String) {
        if self.harness_errors.len() < 5 {
            self.harness_errors.push(msg);
        }
    }
}

/// pre-state queries taken after the clock advance and before the transaction
pub type PreQ = BTreeMap<&'static str, Result<Value, String>>;

pub fn pq_u(p: &PreQ, k: &str) -> Option<U> {
    match p.get(k) {
        Some(Ok(v)) => v.as_str().and_then(|s| s.parse().ok()),
        _ => None,
    }
}
pub fn pq_i(p: &PreQ, k: &str) -> Option<i128> {
    match p.get(k) {
        Some(Ok(v)) if v.is_string() => Some(pi(v)),
        _ => None,
    }
}
pub fn pq_field_u(p: &PreQ, k: &str, f: &str) -> Option<U> {
    match p.get(k) {
        Some(Ok(v)) if v[f].is_string() => Some(pu(&v[f])),
        _ => None,
    }
}
pub fn pq_field_i(p: &PreQ, k: &str, f: &str) -> Option<i128> {
    match p.get(k) {
        Some(Ok(v)) if v[f].is_string() => Some(pi(&v[f])),
        _ => None,
    }
}
pub fn pq_bool(p: &PreQ, k: &str) -> Option<bool> {
    match p.get(k) {
        Some(Ok(v)) => v.as_bool(),
        _ => None,
    }
}

pub struct Ctx<'a> {
    pub pre: &'a Obs,
    pub post: &'a Obs,
    pub preq: &'a PreQ,
    pub step: &'a Step,
    pub out: &'a ExecOut,
    pub ledger: &'a [Xfer],
    pub model: &'a Model,
    pub idx: usize,
}

impl<'a> Ctx<'a> {
    pub fn sent(&self, from: &str, to: &str) -> U {
        self.ledger.iter().filter(|x| x.from == from && x.to == to).map(|x| x.amount).sum()
    }
    pub fn inflow(&self, to: &str) -> U {
        self.ledger.iter().filter(|x| x.to == to).map(|x| x.amount).sum()
    }
    pub fn outflow(&self, from: &str) -> U {
        self.ledger.iter().filter(|x| x.from == from).map(|x| x.amount).sum()
    }
    pub fn delta(&self, who: &str) -> i128 {
        self.post.bal(who) as i128 - self.pre.bal(who) as i128
    }
}

pub fn ledger_from(w: &World, actor_addr: &str, step: &Step, out: &ExecOut) -> Vec<Xfer> {
    let mut v = vec![];
    if !out.ok {
        return v;
    }
    if w.cfg.coll.is_native() && step.funds > 0 && !matches!(step.op, Op::SetAllowance { .. } | Op::Transfer { .. }) {
        v.push(Xfer { from: actor_addr.to_string(), to: w.target_addr(step.op.target()), amount: step.funds });
    }
    for e in out.events.iter() {
        let get = |k: &str| e.attributes.iter().find(|a| a.key == k).map(|a| a.value.clone());
        if e.ty == "wasm" {
            if let Some(tok) = &w.addrs.cw20 {
                if get("_contract_addr").as_deref() == Some(tok.as_str()) {
                    let act = get("action").unwrap_or_default();
                    if act == "transfer" || act == "transfer_from" || act == "send" || act == "send_from" {
                        if let (Some(f), Some(t), Some(a)) = (get("from"), get("to"), get("amount")) {
                            v.push(Xfer { from: f, to: t, amount: a.parse().unwrap_or(0) });
                        }
                    }
                }
            }
        } else if e.ty == "transfer" && w.cfg.coll.is_native() {
            if let (Some(f), Some(t), Some(a)) = (get("sender"), get("recipient"), get("amount")) {
                // amount like "123uwasm" (possibly several coins)
                for part in a.split(',') {
                    if let Some(num) = part.strip_suffix(DENOM) {
                        v.push(Xfer { from: f.clone(), to: t.clone(), amount: num.parse().unwrap_or(0) });
                    }
                }
            }
        }
    }
    v
}

pub struct Runner {
    pub w: World,
    pub prop: String,
    pub model: Model,
    pub obs: Obs,
    pub ev: Ev,
    pub steps_done: usize,
    pub log: Vec<String>,
    pub keep_log: bool,
    pub sim_seconds: u64,
    pub blocks: u64,
    pub tx_ok: u64,
    pub tx_err: u64,
    pub tx_panic: u64,
    pub faults_fired: u64,
    pub abstract_states: BTreeSet<u64>,
    pub trigrams: BTreeSet<u64>,
    last_kinds: Vec<(&'static str, u64)>,
    /// result and ledger of the most recent step (used by the twin driver)
    pub last: Option<(ExecOut, Vec<Xfer>, PreQ)>,
    /// C16: the chain as it was just before the Liquidate of the step with this index ran (same block)
    pub pre_liq: Option<(usize, crate::world::Snap)>,
}

impl Runner {
    pub fn new(cfg: &WorldCfg, prop: &str) -> Result<Runner, String> {
        let w = World::build(cfg)?;
        let obs = observe(&w);
        let n = w.addrs.vamms.len();
        let mut model = Model::default();
        for i in 0..n {
            let v = &obs.vamms[i];
            model.b0.push(v.b);
            model.size0.push(v.size);
            model.prices.push(vec![PriceRec {
                height: obs.height - 1,
                time: cfg.start_time,
                price: v.spot,
                q: v.q,
                b: v.b,
            }]);
            let mut m = BTreeMap::new();
            m.insert(v.size, v.q);
            model.q_at_size.push(m);
            model.feed.push(vec![(cfg.start_time, cfg.vamms[i].oracle_price)]);
            model.liq_block.push(0);
            model.cum_ref.push(Some(0));
            model.vamm_if.push(if cfg.kind == WorldKind::Standard && cfg.vamms[i].init_if { Some(w.addrs.insurance_fund.clone()) } else if cfg.kind == WorldKind::VammDirect { Some(crate::world::IF_EOA.to_string()) } else { None });
            model.trades_in_block.push((0, 0));
            model.settlements.push(0);
        }
        if cfg.kind == WorldKind::FeedOnly {
            model.feed.push(vec![]);
        }
        model.registry_ref = obs.registry.iter().cloned().collect();
        model.open_ref = obs.vamms.iter().map(|v| v.open).collect();
        for v in obs.vamms.iter() {
            let mut m = BTreeMap::new();
            m.insert("holding_cap", v.holding_cap);
            m.insert("oi_cap", v.oi_cap);
            m.insert("toll", v.toll);
            m.insert("spread", v.spread);
            m.insert("fluct", v.fluct);
            m.insert("twap_interval", v.twap_interval as U);
            model.vamm_cfg_ref.push(m);
        }
        if let Some(e) = &obs.eng {
            model.eng_cfg_ref.insert("initial", e.initial);
            model.eng_cfg_ref.insert("maintenance", e.maintenance);
            model.eng_cfg_ref.insert("partial", e.partial);
            model.eng_cfg_ref.insert("liq_fee", e.liq_fee);
        }
        let mut ev = Ev::default();
        ev.property = prop.to_string();
        // harness self-check: the raw census agrees with the public balance queries
        for (who, amt) in obs.bal.iter() {
            if w.balance_q(who) != *amt {
                ev.harness_error(format!("census mismatch for {}", who));
            }
        }
        Ok(Runner {
            w,
            prop: prop.to_string(),
            model,
            obs,
            ev,
            steps_done: 0,
            log: vec![],
            keep_log: false,
            sim_seconds: 0,
            blocks: 0,
            tx_ok: 0,
            tx_err: 0,
            tx_panic: 0,
            faults_fired: 0,
            abstract_states: BTreeSet::new(),
            trigrams: BTreeSet::new(),
            last_kinds: vec![],
            last: None,
            pre_liq: None,
        })
    }

    /// Run `f` on a fork of the current chain state and restore afterwards.
    pub fn fork<T>(&mut self, f: impl FnOnce(&mut World) -> T) -> T {
        let snap = self.w.snapshot();
        let r = f(&mut self.w);
        self.w.restore(&snap);
        self.ev.forks += 1;
        r
    }

    pub fn apply(&mut self, step: &Step) {
        let idx = self.steps_done;
        self.ev.cur_step = idx;
        if let Some((dh, dt)) = step.clock {
            self.w.advance(dh, dt);
            self.sim_seconds += dt;
            self.blocks += dh;
            self.obs.height = self.w.height();
            self.obs.time = self.w.now();
        }
        let actor_addr = self.w.resolve(&step.actor);
        let preq = oracles::prequery(&self.w, &self.obs, step, &self.prop);
        // probes that must see the pre-state (fault enumeration of this very operation)
        if step.probes.contains(&Probe::FaultEnum) {
            oracles::c08::fault_enum(self, step);
        }
        if self.prop == "C16" && matches!(step.op, Op::Liquidate { .. }) {
            self.pre_liq = Some((idx, self.w.snapshot()));
        }
        let out = self.w.exec(&step.actor, &step.op, step.funds, step.fault.clone());
        if out.ok {
            self.tx_ok += 1;
        } else if out.panicked {
            self.tx_panic += 1;
        } else {
            self.tx_err += 1;
        }
        if out.fault_fired.is_some() {
            self.faults_fired += 1;
            self.ev.count("fault_fired");
            self.ev.count(&format!("fault_fired/{}", out.fault_fired.as_ref().unwrap().1));
        }
        let mut post = observe(&self.w);
        let mut ledger = ledger_from(&self.w, &actor_addr, step, &out);
        // native coins attached to a sub-message move without an event: whatever the events leave unexplained is turned
        // into ledger entries (largest debtor to largest creditor, by account name) so that the oracles see those moves
        if self.w.cfg.coll.is_native() && out.ok {
            let mut net: BTreeMap<String, i128> = BTreeMap::new();
            for x in ledger.iter() {
                *net.entry(x.from.clone()).or_insert(0) -= x.amount as i128;
                *net.entry(x.to.clone()).or_insert(0) += x.amount as i128;
            }
            let mut names: BTreeSet<&String> = self.obs.bal.keys().collect();
            names.extend(post.bal.keys());
            names.extend(net.keys());
            let mut neg: Vec<(String, i128)> = vec![];
            let mut pos: Vec<(String, i128)> = vec![];
            for n in names {
                let un = (post.bal(n) as i128 - self.obs.bal(n) as i128) - *net.get(n).unwrap_or(&0);
                if un < 0 {
                    neg.push((n.clone(), -un));
                } else if un > 0 {
                    pos.push((n.clone(), un));
                }
            }
            if !neg.is_empty() && neg.iter().map(|x| x.1).sum::<i128>() == pos.iter().map(|x| x.1).sum::<i128>() {
                self.ev.count("native_moves_without_event");
                let (mut i, mut j) = (0, 0);
                while i < neg.len() && j < pos.len() {
                    let a = neg[i].1.min(pos[j].1);
                    ledger.push(Xfer { from: neg[i].0.clone(), to: pos[j].0.clone(), amount: a as u128 });
                    neg[i].1 -= a;
                    pos[j].1 -= a;
                    if neg[i].1 == 0 {
                        i += 1;
                    }
                    if pos[j].1 == 0 {
                        j += 1;
                    }
                }
            }
        }
        // harness self-check: ledger nets equal balance deltas
        {
            let mut net: BTreeMap<String, i128> = BTreeMap::new();
            for x in ledger.iter() {
                *net.entry(x.from.clone()).or_insert(0) -= x.amount as i128;
                *net.entry(x.to.clone()).or_insert(0) += x.amount as i128;
            }
            let mut names: BTreeSet<&String> = self.obs.bal.keys().collect();
            names.extend(post.bal.keys());
            names.extend(net.keys());
            for n in names {
                let dlt = post.bal(n) as i128 - self.obs.bal(n) as i128;
                let l = *net.get(n).unwrap_or(&0);
                if dlt != l {
                    self.ev.harness_error(format!(
                        "step {} {}: ledger net {} != balance delta {} for {}",
                        idx,
                        step.op.kind(),
                        l,
                        dlt,
                        n
                    ));
                }
            }
        }
        if out.panicked && self.obs.dump != post.dump {
            self.ev.harness_error(format!("step {}: contained panic changed state", idx));
        }
        if self.keep_log {
            self.log.push(format!(
                "#{} h={} t={} {} {} funds={} fault={:?} -> {} {} | vault={} if={} fp={} actor={} | digest={:016x}",
                idx,
                post.height,
                post.time,
                step.actor,
                serde_json::to_string(&step.op).unwrap_or_default(),
                step.funds,
                step.fault,
                if out.ok { "OK" } else if out.panicked { "PANIC" } else { "ERR" },
                tail(&out.err, 140),
                post.bal(&self.w.addrs.engine),
                post.bal(&self.w.addrs.insurance_fund),
                post.bal(&self.w.addrs.fee_pool),
                post.bal(&actor_addr),
                hkey(&post.dump)
            ));
        }
        if self.keep_log && crate::VERBOSE.load(std::sync::atomic::Ordering::Relaxed) {
            let mut l = String::from("    pre-queries:");
            for (k, v) in preq.iter() {
                l.push_str(&format!(" {}={}", k, match v { Ok(x) => x.to_string(), Err(e) => format!("ERR({})", tail(e, 60)) }));
            }
            self.log.push(l);
            for (i, v) in post.vamms.iter().enumerate() {
                self.log.push(format!("    vamm{}: q={} b={} size={} spot={} cum={} open={} registered={} next_funding={}", i, v.q, v.b, v.size, v.spot, v.cum, v.open, v.registered, v.next_funding));
            }
            for ((v, t), p) in post.pos.iter() {
                self.log.push(format!("    pos vamm{} {}: dir={:?} size={} margin={} notional={} checkpoint={} block={}", v, t, p.dir, p.size, p.margin, p.notional, p.checkpoint, p.block));
            }
        }
        if out.ok {
            if let Op::RawEngine { json } = &step.op {
                // a raw settlement call cannot be referenced: the running sums are given up for the rest of the run
                if json.contains("pay_funding") {
                    for c in self.model.cum_ref.iter_mut() {
                        *c = None;
                    }
                }
            }
            if let Op::PayFunding { vamm } = &step.op {
                // the harness's own running sum of settlement premiums (reference for "funding owed")
                let v = *vamm;
                let prem = match (pq_u(&preq, "twap"), pq_u(&preq, "utwap"), self.obs.vamms.get(v)) {
                    (Some(tw), Some(ut), Some(vo)) => crate::refmodel::smul_div(tw as i128 - ut as i128, vo.funding_period as i128, 86400),
                    _ => None,
                };
                if v < self.model.cum_ref.len() {
                    self.model.cum_ref[v] = match (self.model.cum_ref[v], prem) {
                        (Some(c), Some(p)) => c.checked_add(p),
                        _ => None,
                    };
                }
            }
        }
        {
            let pre = std::mem::take(&mut self.obs);
            let ctx = Ctx { pre: &pre, post: &post, preq: &preq, step, out: &out, ledger: &ledger, model: &self.model, idx };
            oracles::step(&self.prop, &ctx, &self.w, &mut self.ev);
            let fund_before = self.w.addrs.insurance_fund.clone();
            self.update_model(&pre, &post, step, &out);
            self.reach(&pre, &post, step, &out);
            if self.w.addrs.insurance_fund != fund_before {
                // the engine was moved to the other fund: what the observation says about "the" fund (registry, owner)
                // has to be read again from the fund now in force, before any probe or generator decision relies on it
                post = observe(&self.w);
            }
        }
        self.obs = post;
        self.last = Some((out.clone(), ledger.clone(), preq.clone()));
        if self.prop == "C17" {
            oracles::c17::refusal_probe(self, step);
        }
        if self.prop == "C20" {
            oracles::c20::exempt_probe(self, step);
        }
        // probes on the post-state, in forks
        for p in step.probes.iter() {
            match p {
                Probe::FaultEnum => {}
                Probe::Liveness => oracles::c07::probe(self, step),
                Probe::RoleMatrix => oracles::c09::probe(self),
                Probe::Gates => oracles::c14::gates(self),
                Probe::ShutdownSubsets => oracles::c14::shutdown_subsets(self),
                Probe::Restriction => oracles::c16::probe(self),
                Probe::Queries => oracles::c10::queries(self),
            }
        }
        self.steps_done += 1;
    }

    fn update_model(&mut self, pre: &Obs, post: &Obs, step: &Step, out: &ExecOut) {
        if out.ok {
            if let Op::SetPause { pause } = step.op {
                self.model.paused = pause;
            }
            match &step.op {
                Op::VammConfig { vamm, holding_cap, oi_cap, toll, spread, fluct, twap_interval, .. } => {
                    if let Some(m) = self.model.vamm_cfg_ref.get_mut(*vamm) {
                        for (k, val) in [("holding_cap", holding_cap), ("oi_cap", oi_cap), ("toll", toll), ("spread", spread), ("fluct", fluct)] {
                            if let Some(x) = val {
                                m.insert(k, *x);
                            }
                        }
                        if let Some(t) = twap_interval {
                            m.insert("twap_interval", *t as U);
                        }
                    }
                }
                Op::EngineConfig { initial, maintenance, partial, liq_fee, .. } => {
                    for (k, val) in [("initial", initial), ("maintenance", maintenance), ("partial", partial), ("liq_fee", liq_fee)] {
                        if let Some(x) = val {
                            self.model.eng_cfg_ref.insert(k, *x);
                        }
                    }
                }
                _ => {}
            }
            match &step.op {
                Op::SetOpen { vamm, open } => {
                    if *vamm < self.model.open_ref.len() {
                        self.model.open_ref[*vamm] = *open;
                    }
                }
                Op::Shutdown => {
                    for (i, a) in self.w.addrs.vamms.iter().enumerate() {
                        if self.model.registry_ref.contains(a) && i < self.model.open_ref.len() {
                            self.model.open_ref[i] = false;
                        }
                    }
                }
                _ => {}
            }
            match &step.op {
                Op::AddWhitelist { address } => {
                    self.model.whitelist.insert(self.w.resolve(address));
                }
                Op::RemoveWhitelist { address } => {
                    self.model.whitelist.remove(&self.w.resolve(address));
                }
                _ => {}
            }
            if let Op::EngineConfig { fee_pool: Some(fp), .. } = &step.op {
                self.model.fee_pool_ref = Some(self.w.resolve(fp));
            }
            if let Op::EngineConfig { insurance_fund: Some(x), .. } = &step.op {
                // "the insurance fund" of every statement is the one the engine was last configured with
                let a = self.w.resolve(x);
                if a != self.w.addrs.insurance_fund {
                    self.ev.count("engine_moved_to_other_insurance_fund");
                    // "the registry" is the one of the fund the engine is configured with: park the old fund's, take
                    // up the new fund's (empty if nothing was ever registered there)
                    let old = std::mem::replace(&mut self.w.addrs.insurance_fund, a.clone());
                    let cur = std::mem::take(&mut self.model.registry_ref);
                    self.model.registry_parked.insert(old, cur);
                    self.model.registry_ref = self.model.registry_parked.remove(&a).unwrap_or_default();
                }
            }
            match &step.op {
                Op::AppendPrice { vamm, price, timestamp } => {
                    if *vamm < self.model.feed.len() {
                        self.model.feed[*vamm].push((*timestamp, *price));
                    }
                }
                Op::AppendMulti { vamm, prices, timestamps } => {
                    if *vamm < self.model.feed.len() {
                        if self.w.cfg.oracle == OracleKind::Real {
                            for (p, t) in prices.iter().zip(timestamps.iter()) {
                                self.model.feed[*vamm].push((*t, p.parse().unwrap_or(0)));
                            }
                        } else if let (Some(p), Some(t)) = (prices.first(), timestamps.first()) {
                            self.model.feed[*vamm].push((*t, p.parse().unwrap_or(0)));
                        }
                    }
                }
                // "a trader whose position on that vAMM was already updated in that block": by their own order or close,
                // or by being liquidated - whether or not a record of the position is left afterwards
                Op::Liquidate { vamm, trader, .. } => {
                    self.model.liq_block[*vamm] = post.height;
                    let t = self.w.resolve(trader);
                    self.model.touched.insert((*vamm, t), post.height);
                }
                Op::Open { vamm, .. } | Op::Close { vamm, .. } => {
                    let t = self.w.resolve(&step.actor);
                    self.model.touched.insert((*vamm, t), post.height);
                }
                Op::PayFunding { vamm } | Op::SettleFunding { vamm } => {
                    self.model.settlements[*vamm] += 1;
                }
                Op::AddVamm { vamm } => {
                    let a = self.w.resolve(vamm);
                    self.model.registry_ref.insert(a);
                }
                Op::RemoveVamm { vamm } => {
                    let a = self.w.resolve(vamm);
                    self.model.registry_ref.remove(&a);
                }
                Op::VammConfig { vamm, insurance_fund: Some(x), .. } => {
                    let a = self.w.resolve(x);
                    if let Some(old) = self.model.vamm_if[*vamm].replace(a) {
                        self.model.former.insert((format!("vamm_if{}", vamm), old));
                    }
                }
                _ => {}
            }
        }
        for i in 0..post.vamms.len() {
            let (a, b) = (&pre.vamms[i], &post.vamms[i]);
            if a.q != b.q || a.b != b.b {
                let recs = &mut self.model.prices[i];
                let rec = PriceRec { height: post.height, time: post.time, price: b.spot, q: b.q, b: b.b };
                if recs.last().map(|r| r.height) == Some(post.height) {
                    *recs.last_mut().unwrap() = rec;
                } else {
                    recs.push(rec);
                }
                let t = &mut self.model.trades_in_block[i];
                if t.0 == post.height {
                    t.1 += 1;
                } else {
                    *t = (post.height, 1);
                }
                let m = &mut self.model.q_at_size[i];
                if m.len() < 4096 || m.contains_key(&b.size) {
                    let e = m.entry(b.size).or_insert(0);
                    if b.q > *e {
                        *e = b.q;
                    }
                }
            }
            if a.owner != b.owner && !a.owner.is_empty() {
                self.model.former.insert((format!("vamm_owner{}", i), a.owner.clone()));
            }
            if a.margin_engine != b.margin_engine {
                self.model.former.insert((format!("vamm_engine{}", i), a.margin_engine.clone()));
            }
            if a.insurance_fund != b.insurance_fund {
                self.model.former.insert((format!("vamm_if{}", i), a.insurance_fund.clone()));
            }
        }
        for (role, a, b) in [("if_owner", &pre.if_owner, &post.if_owner), ("fp_owner", &pre.fp_owner, &post.fp_owner), ("pf_owner", &pre.pf_owner, &post.pf_owner)] {
            if a != b && !a.is_empty() {
                self.model.former.insert((role.to_string(), a.clone()));
            }
        }
        if let (Some(a), Some(b)) = (&pre.eng, &post.eng) {
            if a.owner != b.owner {
                self.model.former.insert(("engine_owner".into(), a.owner.clone()));
            }
            if a.pauser != b.pauser {
                self.model.former.insert(("pauser".into(), a.pauser.clone()));
            }
        }
    }

    /// the two stated reach measures: abstract states and operation trigrams
    fn reach(&mut self, _pre: &Obs, post: &Obs, step: &Step, out: &ExecOut) {
        let mut key: Vec<u64> = vec![];
        for ((v, _), p) in post.pos.iter() {
            let sb = if p.size == 0 { 0 } else { 128 - (p.size.unsigned_abs()).leading_zeros() as u64 / 8 };
            key.push((*v as u64) << 32 | (if p.size > 0 { 1 } else if p.size < 0 { 2 } else { 0 }) << 16 | sb);
        }
        key.push(self.model.paused as u64);
        for (i, v) in post.vamms.iter().enumerate() {
            key.push((v.open as u64) | (v.registered as u64) << 1 | ((self.model.liq_block[i] == post.height) as u64) << 2);
        }
        key.push(post.eng.as_ref().map(|e| (e.bad_debt > 0) as u64).unwrap_or(0));
        self.abstract_states.insert(hkey(&key));
        let k = (step.op.kind(), post.height);
        self.last_kinds.push(k);
        let n = self.last_kinds.len();
        if n >= 3 {
            let t = &self.last_kinds[n - 3..];
            let tri = (t[0].0, t[1].0, t[2].0, t[0].1 == t[1].1, t[1].1 == t[2].1, out.ok);
            self.trigrams.insert(hkey(&tri));
            if n > 8 {
                self.last_kinds.drain(0..n - 3);
            }
        }
    }

    pub fn finish(&mut self) {
        oracles::finish(self);
    }
}

pub fn tail(s: &str, n: usize) -> String {
    let flat: String = s.replace('\n', " ");
    let chars: Vec<char> = flat.chars().collect();
    if chars.len() <= n {
        flat
    } else {
        chars[chars.len() - n..].iter().collect()
    }
}

pub fn fingerprint() -> Value {
    json!({"note": "replays are a pure function of this file and the code under /repo"})
}
