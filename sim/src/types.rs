//! Serializable description of a world, of the operations the scheduler issues and of a recorded history.

use serde::{Deserialize, Serialize};
use serde_json::{json, Value};

pub type U = u128;

mod ustr {
    use serde::{Deserialize, Deserializer, Serializer};
    pub fn serialize<S: Serializer>(v: &u128, s: S) -> Result<S::Ok, S::Error> {
        s.serialize_str(&v.to_string())
    }
    pub fn deserialize<'de, D: Deserializer<'de>>(d: D) -> Result<u128, D::Error> {
        let s = String::deserialize(d)?;
        s.parse::<u128>().map_err(serde::de::Error::custom)
    }
}
mod oustr {
    use serde::{Deserialize, Deserializer, Serializer};
    pub fn serialize<S: Serializer>(v: &Option<u128>, s: S) -> Result<S::Ok, S::Error> {
        match v {
            Some(x) => s.serialize_some(&x.to_string()),
            None => s.serialize_none(),
        }
    }
    pub fn deserialize<'de, D: Deserializer<'de>>(d: D) -> Result<Option<u128>, D::Error> {
        let s = Option::<String>::deserialize(d)?;
        match s {
            Some(x) => x.parse::<u128>().map(Some).map_err(serde::de::Error::custom),
            None => Ok(None),
        }
    }
}

#[derive(Serialize, Deserialize, Clone, Debug, PartialEq, Eq)]
pub enum WorldKind {
    Standard,
    VammDirect,
    FeedOnly,
}

#[derive(Serialize, Deserialize, Clone, Debug, PartialEq, Eq)]
pub enum Coll {
    Cw20 { decimals: u8 },
    Native,
}

impl Coll {
    pub fn decimals(&self) -> u8 {
        match self {
            Coll::Cw20 { decimals } => *decimals,
            Coll::Native => 6,
        }
    }
    pub fn is_native(&self) -> bool {
        matches!(self, Coll::Native)
    }
}

pub const DENOM: &str = "uwasm";

#[derive(Serialize, Deserialize, Clone, Debug, PartialEq, Eq)]
pub enum OracleKind {
    Mock,
    Real,
}

#[derive(Serialize, Deserialize, Clone, Debug, PartialEq)]
pub struct VammCfg {
    #[serde(with = "ustr")]
    pub q: U,
    #[serde(with = "ustr")]
    pub b: U,
    pub funding_period: u64,
    #[serde(with = "ustr")]
    pub toll: U,
    #[serde(with = "ustr")]
    pub spread: U,
    #[serde(with = "ustr")]
    pub fluct: U,
    #[serde(with = "ustr")]
    pub oi_cap: U,
    #[serde(with = "ustr")]
    pub holding_cap: U,
    pub registered: bool,
    pub open: bool,
    /// decimals of the vAMM itself (normally the collateral's)
    pub decimals: u8,
    /// initial oracle price for this market
    #[serde(with = "ustr")]
    pub oracle_price: U,
    pub twap_interval: Option<u64>,
    /// false: the vAMM is instantiated without an insurance fund (the field is left to a later UpdateConfig)
    #[serde(default = "yes")]
    pub init_if: bool,
}

fn yes() -> bool {
    true
}

#[derive(Serialize, Deserialize, Clone, Debug, PartialEq)]
pub struct EngineCfg {
    #[serde(with = "ustr")]
    pub initial: U,
    #[serde(with = "ustr")]
    pub maintenance: U,
    #[serde(with = "ustr")]
    pub liq_fee: U,
    #[serde(with = "ustr")]
    pub partial: U,
}

#[derive(Serialize, Deserialize, Clone, Debug, PartialEq)]
pub struct Roles {
    pub owner: String,
    pub pauser: String,
    pub if_owner: String,
    pub fp_owner: String,
    pub pf_owner: String,
    pub vamm_owner: String,
}

#[derive(Serialize, Deserialize, Clone, Debug, PartialEq)]
pub struct WorldCfg {
    pub kind: WorldKind,
    pub coll: Coll,
    pub oracle: OracleKind,
    pub engine: EngineCfg,
    pub vamms: Vec<VammCfg>,
    pub n_traders: usize,
    #[serde(with = "ustr")]
    pub trader_balance: U,
    /// None = effectively unlimited allowance (cw20 only)
    #[serde(with = "oustr")]
    pub allowance: Option<U>,
    #[serde(with = "ustr")]
    pub if_balance: U,
    pub roles: Roles,
    pub start_time: u64,
    /// deploy unrelated contracts between the first and the second vAMM so that the second vAMM's address is the first
    /// one's followed by one more character (the host numbers contracts: contract5 ... contract50)
    #[serde(default)]
    pub prefix_vamms: bool,
    /// deploy a second insurance fund for the same engine (same owner, no vAMM registered) holding this balance: the
    /// owner can move the engine over to it ("@if2"; "@if1" is the first one, "@if" the one the engine is configured
    /// with according to the history of accepted calls)
    #[serde(default, with = "oustr")]
    pub spare_if: Option<U>,
    /// the accounts that hold (or may come to hold) a role - owner, pauser, the owners of the other contracts, and the
    /// accounts roles are handed to - are funded and trade like anybody else
    #[serde(default)]
    pub roles_trade: bool,
}

impl WorldCfg {
    pub fn d(&self) -> U {
        10u128.pow(self.coll.decimals() as u32)
    }
}

#[derive(Serialize, Deserialize, Clone, Copy, Debug, PartialEq, Eq, Hash)]
pub enum Side {
    Buy,
    Sell,
}
impl Side {
    pub fn js(&self) -> &'static str {
        match self {
            Side::Buy => "buy",
            Side::Sell => "sell",
        }
    }
    pub fn dir(&self) -> Dir {
        match self {
            Side::Buy => Dir::Add,
            Side::Sell => Dir::Remove,
        }
    }
    pub fn flip(&self) -> Side {
        match self {
            Side::Buy => Side::Sell,
            Side::Sell => Side::Buy,
        }
    }
}

#[derive(Serialize, Deserialize, Clone, Copy, Debug, PartialEq, Eq, Hash)]
pub enum Dir {
    Add,
    Remove,
}
impl Dir {
    pub fn js(&self) -> &'static str {
        match self {
            Dir::Add => "add_to_amm",
            Dir::Remove => "remove_from_amm",
        }
    }
    pub fn from_js(s: &str) -> Dir {
        if s == "add_to_amm" {
            Dir::Add
        } else {
            Dir::Remove
        }
    }
    pub fn flip(&self) -> Dir {
        match self {
            Dir::Add => Dir::Remove,
            Dir::Remove => Dir::Add,
        }
    }
}

/// which contract an operation is addressed to
#[derive(Clone, Copy, Debug, PartialEq, Eq, Hash)]
pub enum Target {
    Engine,
    Vamm(usize),
    InsuranceFund,
    FeePool,
    PriceFeed,
    Cw20,
    Bank,
}

/// One operation. Address-valued arguments are account names or symbolic contract names
/// ("@engine", "@if", "@fp", "@pf", "@cw20", "@vamm0"...), resolved against the world when executed.
#[derive(Serialize, Deserialize, Clone, Debug, PartialEq)]
pub enum Op {
    // ---- engine, trader-facing
    Open {
        vamm: usize,
        side: Side,
        #[serde(with = "ustr")]
        margin: U,
        #[serde(with = "ustr")]
        leverage: U,
        #[serde(with = "ustr")]
        limit: U,
    },
    Close {
        vamm: usize,
        #[serde(with = "ustr")]
        limit: U,
    },
    Liquidate {
        vamm: usize,
        trader: String,
        #[serde(with = "ustr")]
        limit: U,
    },
    PayFunding {
        vamm: usize,
    },
    Deposit {
        vamm: usize,
        #[serde(with = "ustr")]
        amount: U,
    },
    Withdraw {
        vamm: usize,
        #[serde(with = "ustr")]
        amount: U,
    },
    // ---- engine, privileged
    EngineConfig {
        owner: Option<String>,
        insurance_fund: Option<String>,
        fee_pool: Option<String>,
        #[serde(with = "oustr")]
        initial: Option<U>,
        #[serde(with = "oustr")]
        maintenance: Option<U>,
        #[serde(with = "oustr")]
        partial: Option<U>,
        #[serde(with = "oustr")]
        liq_fee: Option<U>,
    },
    UpdatePauser {
        pauser: String,
    },
    AddWhitelist {
        address: String,
    },
    RemoveWhitelist {
        address: String,
    },
    SetPause {
        pause: bool,
    },
    // ---- vAMM
    VammConfig {
        vamm: usize,
        #[serde(with = "oustr")]
        holding_cap: Option<U>,
        #[serde(with = "oustr")]
        oi_cap: Option<U>,
        #[serde(with = "oustr")]
        toll: Option<U>,
        #[serde(with = "oustr")]
        spread: Option<U>,
        #[serde(with = "oustr")]
        fluct: Option<U>,
        margin_engine: Option<String>,
        insurance_fund: Option<String>,
        pricefeed: Option<String>,
        twap_interval: Option<u64>,
    },
    VammOwner {
        vamm: usize,
        owner: String,
    },
    SetOpen {
        vamm: usize,
        open: bool,
    },
    SwapInput {
        vamm: usize,
        dir: Dir,
        #[serde(with = "ustr")]
        quote: U,
        #[serde(with = "ustr")]
        limit: U,
        can_go_over: bool,
    },
    SwapOutput {
        vamm: usize,
        dir: Dir,
        #[serde(with = "ustr")]
        base: U,
        #[serde(with = "ustr")]
        limit: U,
    },
    SettleFunding {
        vamm: usize,
    },
    // ---- insurance fund
    IfOwner {
        owner: String,
    },
    AddVamm {
        vamm: String,
    },
    RemoveVamm {
        vamm: String,
    },
    IfWithdraw {
        #[serde(with = "ustr")]
        amount: U,
    },
    Shutdown,
    // ---- fee pool
    FpOwner {
        owner: String,
    },
    FpAddToken {
        token: String,
    },
    FpRemoveToken {
        token: String,
    },
    FpSend {
        #[serde(with = "ustr")]
        amount: U,
        recipient: String,
    },
    // ---- price feed (both kinds)
    AppendPrice {
        vamm: usize,
        #[serde(with = "ustr")]
        price: U,
        timestamp: u64,
    },
    AppendMulti {
        vamm: usize,
        prices: Vec<String>,
        timestamps: Vec<u64>,
    },
    PfOwner {
        owner: String,
    },
    /// arbitrary JSON sent to the engine (adversarial address arguments that the typed variants cannot express)
    RawEngine {
        json: String,
    },
    // ---- environment (collateral token directly)
    SetAllowance {
        #[serde(with = "ustr")]
        amount: U,
    },
    Transfer {
        to: String,
        #[serde(with = "ustr")]
        amount: U,
    },
}

impl Op {
    pub fn kind(&self) -> &'static str {
        match self {
            Op::Open { .. } => "Open",
            Op::Close { .. } => "Close",
            Op::Liquidate { .. } => "Liquidate",
            Op::PayFunding { .. } => "PayFunding",
            Op::Deposit { .. } => "Deposit",
            Op::Withdraw { .. } => "Withdraw",
            Op::EngineConfig { .. } => "EngineConfig",
            Op::UpdatePauser { .. } => "UpdatePauser",
            Op::AddWhitelist { .. } => "AddWhitelist",
            Op::RemoveWhitelist { .. } => "RemoveWhitelist",
            Op::SetPause { .. } => "SetPause",
            Op::VammConfig { .. } => "VammConfig",
            Op::VammOwner { .. } => "VammOwner",
            Op::SetOpen { .. } => "SetOpen",
            Op::SwapInput { .. } => "SwapInput",
            Op::SwapOutput { .. } => "SwapOutput",
            Op::SettleFunding { .. } => "SettleFunding",
            Op::IfOwner { .. } => "IfOwner",
            Op::AddVamm { .. } => "AddVamm",
            Op::RemoveVamm { .. } => "RemoveVamm",
            Op::IfWithdraw { .. } => "IfWithdraw",
            Op::Shutdown => "Shutdown",
            Op::FpOwner { .. } => "FpOwner",
            Op::FpAddToken { .. } => "FpAddToken",
            Op::FpRemoveToken { .. } => "FpRemoveToken",
            Op::FpSend { .. } => "FpSend",
            Op::AppendPrice { .. } => "AppendPrice",
            Op::AppendMulti { .. } => "AppendMulti",
            Op::PfOwner { .. } => "PfOwner",
            Op::RawEngine { .. } => "RawEngine",
            Op::SetAllowance { .. } => "SetAllowance",
            Op::Transfer { .. } => "Transfer",
        }
    }

    pub fn target(&self) -> Target {
        match self {
            Op::Open { .. }
            | Op::Close { .. }
            | Op::Liquidate { .. }
            | Op::PayFunding { .. }
            | Op::Deposit { .. }
            | Op::Withdraw { .. }
            | Op::EngineConfig { .. }
            | Op::UpdatePauser { .. }
            | Op::AddWhitelist { .. }
            | Op::RemoveWhitelist { .. }
            | Op::RawEngine { .. }
            | Op::SetPause { .. } => Target::Engine,
            Op::VammConfig { vamm, .. }
            | Op::VammOwner { vamm, .. }
            | Op::SetOpen { vamm, .. }
            | Op::SwapInput { vamm, .. }
            | Op::SwapOutput { vamm, .. }
            | Op::SettleFunding { vamm } => Target::Vamm(*vamm),
            Op::IfOwner { .. }
            | Op::AddVamm { .. }
            | Op::RemoveVamm { .. }
            | Op::IfWithdraw { .. }
            | Op::Shutdown => Target::InsuranceFund,
            Op::FpOwner { .. }
            | Op::FpAddToken { .. }
            | Op::FpRemoveToken { .. }
            | Op::FpSend { .. } => Target::FeePool,
            Op::AppendPrice { .. } | Op::AppendMulti { .. } | Op::PfOwner { .. } => {
                Target::PriceFeed
            }
            Op::SetAllowance { .. } => Target::Cw20,
            Op::Transfer { .. } => Target::Cw20, // or the bank for native collateral
        }
    }

    /// engine operations a trader (or keeper) initiates
    pub fn is_engine_user_op(&self) -> bool {
        matches!(
            self,
            Op::Open { .. }
                | Op::Close { .. }
                | Op::Liquidate { .. }
                | Op::PayFunding { .. }
                | Op::Deposit { .. }
                | Op::Withdraw { .. }
        )
    }

    pub fn vamm_idx(&self) -> Option<usize> {
        match self {
            Op::Open { vamm, .. }
            | Op::Close { vamm, .. }
            | Op::Liquidate { vamm, .. }
            | Op::PayFunding { vamm }
            | Op::Deposit { vamm, .. }
            | Op::Withdraw { vamm, .. }
            | Op::VammConfig { vamm, .. }
            | Op::VammOwner { vamm, .. }
            | Op::SetOpen { vamm, .. }
            | Op::SwapInput { vamm, .. }
            | Op::SwapOutput { vamm, .. }
            | Op::SettleFunding { vamm }
            | Op::AppendPrice { vamm, .. }
            | Op::AppendMulti { vamm, .. } => Some(*vamm),
            _ => None,
        }
    }
}

fn opt_s(v: &Option<String>, r: &dyn Fn(&str) -> String) -> Value {
    match v {
        Some(s) => Value::String(r(s)),
        None => Value::Null,
    }
}
fn opt_u(v: &Option<U>) -> Value {
    match v {
        Some(s) => Value::String(s.to_string()),
        None => Value::Null,
    }
}

/// The JSON message the contract receives. `r` resolves account / symbolic names to addresses,
/// `vaddr` gives a vAMM's address, `key` the oracle key of a market, `token` the collateral identifier.
pub fn op_to_json(
    op: &Op,
    r: &dyn Fn(&str) -> String,
    vaddr: &dyn Fn(usize) -> String,
    key: &dyn Fn(usize) -> String,
    token_asset: &Value,
) -> Value {
    let s = |x: &U| x.to_string();
    match op {
        Op::Open { vamm, side, margin, leverage, limit } => json!({"open_position": {
            "vamm": vaddr(*vamm), "side": side.js(), "margin_amount": s(margin),
            "leverage": s(leverage), "base_asset_limit": s(limit)}}),
        Op::Close { vamm, limit } => json!({"close_position": {"vamm": vaddr(*vamm), "quote_asset_limit": s(limit)}}),
        Op::Liquidate { vamm, trader, limit } => json!({"liquidate": {
            "vamm": vaddr(*vamm), "trader": r(trader), "quote_asset_limit": s(limit)}}),
        Op::PayFunding { vamm } => json!({"pay_funding": {"vamm": vaddr(*vamm)}}),
        Op::Deposit { vamm, amount } => json!({"deposit_margin": {"vamm": vaddr(*vamm), "amount": s(amount)}}),
        Op::Withdraw { vamm, amount } => json!({"withdraw_margin": {"vamm": vaddr(*vamm), "amount": s(amount)}}),
        Op::EngineConfig { owner, insurance_fund, fee_pool, initial, maintenance, partial, liq_fee } => json!({"update_config": {
            "owner": opt_s(owner, r), "insurance_fund": opt_s(insurance_fund, r), "fee_pool": opt_s(fee_pool, r),
            "initial_margin_ratio": opt_u(initial), "maintenance_margin_ratio": opt_u(maintenance),
            "partial_liquidation_ratio": opt_u(partial), "liquidation_fee": opt_u(liq_fee)}}),
        Op::UpdatePauser { pauser } => json!({"update_pauser": {"pauser": r(pauser)}}),
        Op::AddWhitelist { address } => json!({"add_whitelist": {"address": r(address)}}),
        Op::RemoveWhitelist { address } => json!({"remove_whitelist": {"address": r(address)}}),
        Op::SetPause { pause } => json!({"set_pause": {"pause": pause}}),
        Op::VammConfig { holding_cap, oi_cap, toll, spread, fluct, margin_engine, insurance_fund, pricefeed, twap_interval, .. } => json!({"update_config": {
            "base_asset_holding_cap": opt_u(holding_cap), "open_interest_notional_cap": opt_u(oi_cap),
            "toll_ratio": opt_u(toll), "spread_ratio": opt_u(spread), "fluctuation_limit_ratio": opt_u(fluct),
            "margin_engine": opt_s(margin_engine, r), "insurance_fund": opt_s(insurance_fund, r),
            "pricefeed": opt_s(pricefeed, r), "spot_price_twap_interval": twap_interval}}),
        Op::VammOwner { owner, .. } => json!({"update_owner": {"owner": r(owner)}}),
        Op::SetOpen { open, .. } => json!({"set_open": {"open": open}}),
        Op::SwapInput { dir, quote, limit, can_go_over, .. } => json!({"swap_input": {
            "direction": dir.js(), "quote_asset_amount": s(quote), "base_asset_limit": s(limit),
            "can_go_over_fluctuation": can_go_over}}),
        Op::SwapOutput { dir, base, limit, .. } => json!({"swap_output": {
            "direction": dir.js(), "base_asset_amount": s(base), "quote_asset_limit": s(limit)}}),
        Op::SettleFunding { .. } => json!({"settle_funding": {}}),
        Op::IfOwner { owner } => json!({"update_owner": {"owner": r(owner)}}),
        Op::AddVamm { vamm } => json!({"add_vamm": {"vamm": r(vamm)}}),
        Op::RemoveVamm { vamm } => json!({"remove_vamm": {"vamm": r(vamm)}}),
        Op::IfWithdraw { amount } => json!({"withdraw": {"token": token_asset, "amount": s(amount)}}),
        Op::Shutdown => json!({"shutdown_vamms": {}}),
        Op::FpOwner { owner } => json!({"update_owner": {"owner": r(owner)}}),
        Op::FpAddToken { token } => json!({"add_token": {"token": r(token)}}),
        Op::FpRemoveToken { token } => json!({"remove_token": {"token": r(token)}}),
        Op::FpSend { amount, recipient } => json!({"send_token": {
            "token": r("@token"), "amount": s(amount), "recipient": r(recipient)}}),
        Op::AppendPrice { vamm, price, timestamp } => json!({"append_price": {
            "key": key(*vamm), "price": s(price), "timestamp": timestamp}}),
        Op::AppendMulti { vamm, prices, timestamps } => json!({"append_multiple_price": {
            "key": key(*vamm), "prices": prices, "timestamps": timestamps}}),
        Op::PfOwner { owner } => json!({"update_owner": {"owner": r(owner)}}),
        Op::RawEngine { json } => serde_json::from_str(json).unwrap_or(Value::Null),
        Op::SetAllowance { .. } | Op::Transfer { .. } => Value::Null, // handled by the executor
    }
}

/// A fault injected into one transaction.
#[derive(Serialize, Deserialize, Clone, Debug, PartialEq, Eq)]
pub enum Fault {
    /// fail the k-th message (pre-order over the message tree, 1-based, bank sends included)
    Index(u32),
    /// fail the n-th message (1-based) addressed to the named component
    Named { component: String, nth: u32 },
}

#[derive(Serialize, Deserialize, Clone, Debug, PartialEq, Eq, Hash)]
pub enum Probe {
    /// C07: would each under-margined position be liquidated right now?
    Liveness,
    /// C08: fail every sub-message of this step's own operation, one at a time (run before the step)
    FaultEnum,
    /// C09: Byzantine-sender matrix
    RoleMatrix,
    /// C14: gate matrix
    Gates,
    /// C14: shutdown from every subset of already-closed vAMMs
    ShutdownSubsets,
    /// C16: restriction probes for every trader on every vAMM
    Restriction,
    /// C10: issue the whole query surface and compare dumps
    Queries,
}

#[derive(Serialize, Deserialize, Clone, Debug, PartialEq)]
pub struct Step {
    /// (blocks, seconds) to advance before the operation
    pub clock: Option<(u64, u64)>,
    pub actor: String,
    pub op: Op,
    /// native funds attached (ignored for cw20 collateral)
    #[serde(with = "ustr")]
    pub funds: U,
    pub fault: Option<Fault>,
    #[serde(default)]
    pub probes: Vec<Probe>,
}

impl Step {
    pub fn new(actor: &str, op: Op) -> Step {
        Step { clock: None, actor: actor.to_string(), op, funds: 0, fault: None, probes: vec![] }
    }
}
