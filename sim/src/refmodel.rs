//! Reference arithmetic, written from the property statements (DESIGN.md Appendix A). Exact: 256-bit
//! unsigned / checked i128; `None` means "outside the reference's range - skip and count".

use cosmwasm_std::Uint256;

use crate::types::*;

pub fn u256(x: U) -> Uint256 {
    Uint256::from(x)
}

pub fn to_u(x: Uint256) -> Option<U> {
    let s = x.to_string();
    s.parse::<U>().ok()
}

/// floor(a*b/c)
pub fn mul_div(a: U, b: U, c: U) -> Option<U> {
    if c == 0 {
        return None;
    }
    to_u(u256(a) * u256(b) / u256(c))
}

/// K = floor(q*b/D) as a 256-bit number
pub fn k_scaled(q: U, b: U, d: U) -> Uint256 {
    u256(q) * u256(b) / u256(d)
}

/// constant-product quote for a quote-denominated swap: base amount exchanged (A.1)
pub fn curve_input(dir: Dir, dq: U, q: U, b: U, d: U) -> Option<U> {
    if dq == 0 {
        return Some(0);
    }
    let k = k_scaled(q, b, d);
    let q2 = match dir {
        Dir::Add => q.checked_add(dq)?,
        Dir::Remove => q.checked_sub(dq)?,
    };
    if q2 == 0 {
        return None;
    }
    let kd = k * u256(d);
    let bstar = to_u(kd / u256(q2))?;
    let rem = kd % u256(q2);
    let rz = rem.is_zero();
    match dir {
        Dir::Add => {
            let out = b.checked_sub(bstar)?;
            if rz {
                Some(out)
            } else {
                out.checked_sub(1)
            }
        }
        Dir::Remove => {
            let out = bstar.checked_sub(b)?;
            if rz {
                Some(out)
            } else {
                out.checked_add(1)
            }
        }
    }
}

/// constant-product quote for a base-denominated swap: quote amount exchanged (A.1)
pub fn curve_output(dir: Dir, db: U, q: U, b: U, d: U) -> Option<U> {
    if db == 0 {
        return Some(0);
    }
    let k = k_scaled(q, b, d);
    let b2 = match dir {
        Dir::Add => b.checked_add(db)?,
        Dir::Remove => b.checked_sub(db)?,
    };
    if b2 == 0 {
        return None;
    }
    let kd = k * u256(d);
    let qstar = to_u(kd / u256(b2))?;
    let rem = kd % u256(b2);
    let rz = rem.is_zero();
    match dir {
        Dir::Add => {
            let out = q.checked_sub(qstar)?;
            if rz {
                Some(out)
            } else {
                out.checked_sub(1)
            }
        }
        Dir::Remove => {
            let out = qstar.checked_sub(q)?;
            if rz {
                Some(out)
            } else {
                out.checked_add(1)
            }
        }
    }
}

pub fn ui(x: U) -> Option<i128> {
    i128::try_from(x).ok()
}

/// trunc(a*b/c) on signed values (division truncates toward zero)
pub fn smul_div(a: i128, b: i128, c: i128) -> Option<i128> {
    if c == 0 {
        return None;
    }
    let neg = (a < 0) ^ (b < 0) ^ (c < 0);
    let m = mul_div(a.unsigned_abs(), b.unsigned_abs(), c.unsigned_abs())?;
    let m = ui(m)?;
    Some(if neg { -m } else { m })
}

/// funding owed by a position: trunc((cum - checkpoint) * size / D)
pub fn funding_owed(cum: i128, checkpoint: i128, size: i128, d: U) -> Option<i128> {
    let diff = cum.checked_sub(checkpoint)?;
    smul_div(diff, size, ui(d)?)
}

/// PnL of a position whose closing trade is worth `n` quote
pub fn pnl(dir: Dir, n: U, open_notional: U) -> Option<i128> {
    let n = ui(n)?;
    let o = ui(open_notional)?;
    Some(match dir {
        Dir::Add => n - o,
        Dir::Remove => o - n,
    })
}

/// margin ratio trunc((margin + pnl - f) * D / n)
pub fn ratio(margin: U, pnl: i128, f: i128, n: U, d: U) -> Option<i128> {
    if n == 0 {
        return None;
    }
    let e = ui(margin)?.checked_add(pnl)?.checked_sub(f)?;
    smul_div(e, ui(d)?, ui(n)?)
}

/// The liquidation ratio extended to a position worth nothing at the price in question (notional 0): the quotient is
/// not defined there, its sign is - positive equity is above any maintenance ratio, negative equity below any; zero
/// equity counts as ratio 0. (`LARGE` stands for "beyond every ratio".)
pub const LARGE: i128 = i128::MAX / 4;
pub fn ratio_ext(margin: U, pnl: i128, f: i128, n: U, d: U) -> Option<i128> {
    if n != 0 {
        return ratio(margin, pnl, f, n, d);
    }
    let e = ui(margin)?.checked_add(pnl)?.checked_sub(f)?;
    Some(if e > 0 { LARGE } else if e < 0 { -LARGE } else { 0 })
}

pub fn fee(n: U, ratio: U, d: U) -> Option<U> {
    if n == 0 {
        return Some(0);
    }
    mul_div(n, ratio, d)
}

/// integer square root (floor)
pub fn isqrt(n: Uint256) -> Uint256 {
    if n.is_zero() {
        return n;
    }
    let mut x = n;
    let mut y = (x + Uint256::from(1u8)) / Uint256::from(2u8);
    while y < x {
        x = y;
        y = (x + n / x) / Uint256::from(2u8);
    }
    x
}

/// quote amount to add so that the price scales by (D + x)/D  (x in ratio units); price ∝ q², so Δ = q(√(1+x) − 1)
pub fn quote_for_price_up(q: U, x: U, d: U) -> Option<U> {
    // q' = q * sqrt((d + x)/d) = sqrt(q² (d+x) / d)
    let q2 = u256(q) * u256(q) * u256(d.checked_add(x)?) / u256(d);
    let qn = to_u(isqrt(q2))?;
    qn.checked_sub(q)
}
pub fn quote_for_price_down(q: U, x: U, d: U) -> Option<U> {
    let q2 = u256(q) * u256(q) * u256(d.checked_sub(x)?) / u256(d);
    let qn = to_u(isqrt(q2))?;
    q.checked_sub(qn)
}

/// The per-block price band around a reference price, at the prices the vAMM reports (whole price units):
/// `spot >= P x (1 - l)` is `spot >= ` the product rounded up, `spot <= P x (1 + l)` is `spot <= ` the product rounded down.
pub fn band_bounds(p: U, l: U, d: U) -> Option<(U, U)> {
    let upper = mul_div(p, d.checked_add(l)?, d)?;
    let dl = d.checked_sub(l)?;
    let lower_floor = mul_div(p, dl, d)?;
    let exact = u256(lower_floor) * u256(d) == u256(p) * u256(dl);
    Some((if exact { lower_floor } else { lower_floor + 1 }, upper))
}
