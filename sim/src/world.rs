//! The simulated chain: cw-multi-test host (stub) running the repository's real contracts behind the fault layer.

use cosmwasm_std::{
    coins, to_vec, Addr, BankMsg, Binary, BlockInfo, ContractResult, CosmosMsg, Empty, Event,
    Order, Querier, QueryRequest, Storage, SystemResult, Timestamp, WasmMsg, WasmQuery,
};
use cw_multi_test::{App, AppBuilder, BankKeeper, Contract, ContractWrapper, Executor};
use serde_json::{json, Value};
use std::collections::BTreeMap;
use std::panic::{catch_unwind, AssertUnwindSafe};

use crate::fault::{self, FaultyBank, FaultyContract};
use crate::types::*;

pub type SimApp = App<FaultyBank>;

#[derive(Clone, Debug, Default)]
pub struct Addrs {
    pub engine: String,
    /// the fund the engine is configured with (follows the history of accepted UpdateConfig calls)
    pub insurance_fund: String,
    /// the fund deployed first, and the spare one if the world has it
    pub if1: String,
    pub if2: Option<String>,
    pub fee_pool: String,
    pub pricefeed: String,
    pub cw20: Option<String>,
    pub vamms: Vec<String>,
}

pub type Dump = Vec<(Vec<u8>, Vec<u8>)>;

#[derive(Clone)]
pub struct Snap {
    pub dump: Dump,
    pub block: BlockInfo,
}

#[derive(Clone, Debug, Default)]
pub struct ExecOut {
    pub ok: bool,
    pub err: String,
    pub panicked: bool,
    pub events: Vec<Event>,
    pub n_msgs: u32,
    pub trace: Vec<&'static str>,
    pub fault_fired: Option<(u32, String)>,
}

pub struct World {
    pub cfg: WorldCfg,
    pub app: SimApp,
    pub addrs: Addrs,
    /// externally owned accounts (order is fixed: it is part of the deterministic schedule)
    pub accounts: Vec<String>,
    pub d: U,
}

pub const KEYS: [&str; 4] = ["AAA", "BBB", "CCC", "DDD"];
pub const TREASURY: &str = "treasury";
pub const DRIVER: &str = "driver";
pub const IF_EOA: &str = "ifeoa";

fn wrap(c: Box<dyn Contract<Empty>>, name: &'static str) -> Box<dyn Contract<Empty>> {
    Box::new(FaultyContract { inner: c, name })
}

fn c_engine() -> Box<dyn Contract<Empty>> {
    wrap(
        Box::new(
            ContractWrapper::new_with_empty(
                margined_engine::contract::execute,
                margined_engine::contract::instantiate,
                margined_engine::contract::query,
            )
            .with_reply_empty(margined_engine::contract::reply),
        ),
        "engine",
    )
}
fn c_vamm() -> Box<dyn Contract<Empty>> {
    wrap(
        Box::new(ContractWrapper::new_with_empty(
            margined_vamm::contract::execute,
            margined_vamm::contract::instantiate,
            margined_vamm::contract::query,
        )),
        "vamm",
    )
}
fn c_if() -> Box<dyn Contract<Empty>> {
    wrap(
        Box::new(ContractWrapper::new_with_empty(
            margined_insurance_fund::contract::execute,
            margined_insurance_fund::contract::instantiate,
            margined_insurance_fund::contract::query,
        )),
        "insurance_fund",
    )
}
fn c_fp() -> Box<dyn Contract<Empty>> {
    wrap(
        Box::new(ContractWrapper::new_with_empty(
            margined_fee_pool::contract::execute,
            margined_fee_pool::contract::instantiate,
            margined_fee_pool::contract::query,
        )),
        "fee_pool",
    )
}
fn c_pf_real() -> Box<dyn Contract<Empty>> {
    wrap(
        Box::new(ContractWrapper::new_with_empty(
            margined_pricefeed::contract::execute,
            margined_pricefeed::contract::instantiate,
            margined_pricefeed::contract::query,
        )),
        "pricefeed",
    )
}
fn c_pf_mock() -> Box<dyn Contract<Empty>> {
    wrap(
        Box::new(ContractWrapper::new_with_empty(
            mock_pricefeed::contract::execute,
            mock_pricefeed::contract::instantiate,
            mock_pricefeed::contract::query,
        )),
        "pricefeed",
    )
}
fn c_cw20() -> Box<dyn Contract<Empty>> {
    wrap(
        Box::new(ContractWrapper::new_with_empty(
            cw20_base::contract::execute,
            cw20_base::contract::instantiate,
            cw20_base::contract::query,
        )),
        "cw20",
    )
}

fn bin(v: &Value) -> Binary {
    Binary(serde_json::to_vec(v).unwrap())
}

pub fn lp(ns: &[u8]) -> Vec<u8> {
    let mut out = vec![(ns.len() >> 8) as u8, (ns.len() & 0xff) as u8];
    out.extend_from_slice(ns);
    out
}

impl World {
    pub fn trader(i: usize) -> String {
        format!("trader{}", i)
    }

    pub fn all_account_names(cfg: &WorldCfg) -> Vec<String> {
        let mut v: Vec<String> = vec![];
        let mut push = |s: &str| {
            if !v.iter().any(|x| x == s) {
                v.push(s.to_string());
            }
        };
        push(&cfg.roles.owner);
        push(&cfg.roles.pauser);
        push(&cfg.roles.if_owner);
        push(&cfg.roles.fp_owner);
        push(&cfg.roles.pf_owner);
        push(&cfg.roles.vamm_owner);
        for i in 0..cfg.n_traders {
            push(&World::trader(i));
        }
        for s in ["whale", "liquidator", "keeper", "stranger", "newowner", TREASURY, DRIVER, IF_EOA] {
            push(s);
        }
        v
    }

    /// accounts that hold collateral and may trade
    pub fn trading_accounts(&self) -> Vec<String> {
        let mut v: Vec<String> = (0..self.cfg.n_traders).map(World::trader).collect();
        v.push("whale".into());
        v.push("liquidator".into());
        v.extend(World::shadow_accounts(&self.cfg));
        for a in World::role_accounts(&self.cfg) {
            if !v.contains(&a) {
                v.push(a);
            }
        }
        v
    }

    /// role holders (and the accounts roles are handed to) as traders, in worlds that ask for it
    pub fn role_accounts(cfg: &WorldCfg) -> Vec<String> {
        let mut v: Vec<String> = vec![];
        if cfg.kind == WorldKind::Standard && cfg.roles_trade {
            let r = &cfg.roles;
            for a in [r.owner.as_str(), r.pauser.as_str(), r.if_owner.as_str(), r.fp_owner.as_str(), r.pf_owner.as_str(), r.vamm_owner.as_str(), "newowner", "stranger", "keeper"] {
                if !v.iter().any(|x| x == a) {
                    v.push(a.to_string());
                }
            }
        }
        v
    }

    /// In worlds whose second vAMM's address is the first one's followed by "0": accounts named "0" + a trader. Appended
    /// to the first vAMM's address they read like the second vAMM's address followed by the trader's. They are ordinary
    /// funded traders.
    pub fn shadow_accounts(cfg: &WorldCfg) -> Vec<String> {
        if cfg.kind == WorldKind::Standard && cfg.prefix_vamms && cfg.vamms.len() >= 2 {
            (0..cfg.n_traders).map(|i| format!("0{}", World::trader(i))).collect()
        } else {
            vec![]
        }
    }

    pub fn build(cfg: &WorldCfg) -> Result<World, String> {
        let accounts = World::all_account_names(cfg);
        let d = cfg.d();
        let big: U = cfg.trader_balance;
        let whale_bal: U = big.saturating_mul(1000);
        let treasury_bal: U = cfg.if_balance.saturating_add(big.saturating_mul(100));
        let mut funded: Vec<(String, U)> = vec![];
        for i in 0..cfg.n_traders {
            funded.push((World::trader(i), big));
        }
        for a in World::shadow_accounts(cfg) {
            funded.push((a, big));
        }
        funded.push(("whale".into(), whale_bal));
        funded.push(("liquidator".into(), big));
        let role_traders = World::role_accounts(cfg);
        for a in role_traders.iter() {
            funded.push((a.clone(), big));
        }
        if !role_traders.iter().any(|a| a == "keeper") {
            funded.push(("keeper".into(), d));
        }
        if !role_traders.iter().any(|a| a == "stranger") {
            funded.push(("stranger".into(), d));
        }
        funded.push((TREASURY.into(), treasury_bal));

        let start_block = BlockInfo {
            height: 1000,
            time: Timestamp::from_seconds(cfg.start_time),
            chain_id: "sim".to_string(),
        };
        let native_init: Vec<(String, U)> = if cfg.coll.is_native() { funded.clone() } else { vec![] };
        let mut app: SimApp = AppBuilder::new()
            .with_bank(FaultyBank(BankKeeper::new()))
            .with_block(start_block)
            .build(|router, _api, storage| {
                for (a, amt) in native_init.iter() {
                    if *amt > 0 {
                        router
                            .bank
                            .0
                            .init_balance(storage, &Addr::unchecked(a.clone()), coins(*amt, DENOM))
                            .unwrap();
                    }
                }
            });

        let mut addrs = Addrs::default();
        let r = &cfg.roles;
        let inst = |app: &mut SimApp, code: u64, sender: &str, msg: Value, label: &str| -> Result<String, String> {
            app.instantiate_contract(code, Addr::unchecked(sender), &RawJson(msg), &[], label, None)
                .map(|a| a.to_string())
                .map_err(|e| format!("instantiate {}: {:#}", label, e))
        };
        let exec = |app: &mut SimApp, sender: &str, to: &str, msg: Value| -> Result<(), String> {
            app.execute(
                Addr::unchecked(sender),
                CosmosMsg::Wasm(WasmMsg::Execute { contract_addr: to.to_string(), msg: bin(&msg), funds: vec![] }),
            )
            .map(|_| ())
            .map_err(|e| format!("setup exec {} -> {}: {:#}", sender, to, e))
        };

        match cfg.kind {
            WorldKind::Standard => {
                let fp_id = app.store_code(c_fp());
                let cw_id = app.store_code(c_cw20());
                let en_id = app.store_code(c_engine());
                let va_id = app.store_code(c_vamm());
                let if_id = app.store_code(c_if());
                let pf_id = app.store_code(match cfg.oracle {
                    OracleKind::Mock => c_pf_mock(),
                    OracleKind::Real => c_pf_real(),
                });
                addrs.fee_pool = inst(&mut app, fp_id, &r.fp_owner, json!({}), "fee_pool")?;
                let collateral: String = match &cfg.coll {
                    Coll::Cw20 { decimals } => {
                        let bals: Vec<Value> = funded
                            .iter()
                            .filter(|(_, a)| *a > 0)
                            .map(|(a, amt)| json!({"address": a, "amount": amt.to_string()}))
                            .collect();
                        let a = inst(
                            &mut app,
                            cw_id,
                            TREASURY,
                            json!({"name": "USDC", "symbol": "USDC", "decimals": decimals, "initial_balances": bals, "mint": null, "marketing": null}),
                            "cw20",
                        )?;
                        addrs.cw20 = Some(a.clone());
                        a
                    }
                    Coll::Native => DENOM.to_string(),
                };
                addrs.engine = inst(
                    &mut app,
                    en_id,
                    &r.owner,
                    json!({"pauser": r.pauser, "insurance_fund": "insurance_fund", "fee_pool": addrs.fee_pool,
                        "eligible_collateral": collateral,
                        "initial_margin_ratio": cfg.engine.initial.to_string(),
                        "maintenance_margin_ratio": cfg.engine.maintenance.to_string(),
                        "liquidation_fee": cfg.engine.liq_fee.to_string()}),
                    "engine",
                )?;
                addrs.insurance_fund = inst(&mut app, if_id, &r.if_owner, json!({"engine": addrs.engine}), "insurance_fund")?;
                exec(
                    &mut app,
                    &r.owner,
                    &addrs.engine,
                    json!({"update_config": {"owner": null, "insurance_fund": addrs.insurance_fund, "fee_pool": null,
                        "initial_margin_ratio": null, "maintenance_margin_ratio": null,
                        "partial_liquidation_ratio": cfg.engine.partial.to_string(), "liquidation_fee": null}}),
                )?;
                addrs.pricefeed = inst(&mut app, pf_id, &r.pf_owner, json!({"oracle_hub_contract": "oracle_hub0000"}), "pricefeed")?;
                for (i, v) in cfg.vamms.iter().enumerate() {
                    let va = inst(
                        &mut app,
                        va_id,
                        &r.vamm_owner,
                        json!({"decimals": v.decimals, "pricefeed": addrs.pricefeed, "margin_engine": addrs.engine,
                            "insurance_fund": if v.init_if { Value::String(addrs.insurance_fund.clone()) } else { Value::Null }, "quote_asset": "USD", "base_asset": KEYS[i],
                            "quote_asset_reserve": v.q.to_string(), "base_asset_reserve": v.b.to_string(),
                            "funding_period": v.funding_period, "toll_ratio": v.toll.to_string(),
                            "spread_ratio": v.spread.to_string(), "fluctuation_limit_ratio": v.fluct.to_string()}),
                        &format!("vamm{}", i),
                    )?;
                    if v.oi_cap != 0 || v.holding_cap != 0 || v.twap_interval.is_some() {
                        exec(
                            &mut app,
                            &r.vamm_owner,
                            &va,
                            json!({"update_config": {"base_asset_holding_cap": v.holding_cap.to_string(),
                                "open_interest_notional_cap": v.oi_cap.to_string(), "toll_ratio": null, "spread_ratio": null,
                                "fluctuation_limit_ratio": null, "margin_engine": null, "insurance_fund": null,
                                "pricefeed": null, "spot_price_twap_interval": v.twap_interval}}),
                        )?;
                    }
                    if v.open {
                        exec(&mut app, &r.vamm_owner, &va, json!({"set_open": {"open": true}}))?;
                    }
                    if v.registered {
                        // a vAMM whose decimals differ is expected to be refused here
                        let _ = exec(&mut app, &r.if_owner, &addrs.insurance_fund, json!({"add_vamm": {"vamm": va}}));
                    }
                    exec(
                        &mut app,
                        &r.pf_owner,
                        &addrs.pricefeed,
                        json!({"append_price": {"key": KEYS[i], "price": v.oracle_price.to_string(), "timestamp": cfg.start_time}}),
                    )?;
                    if i == 0 && cfg.prefix_vamms && cfg.vamms.len() >= 2 {
                        // unrelated deployments until the next contract number is this vAMM's number followed by 0
                        if let Some(n) = va.strip_prefix("contract").and_then(|x| x.parse::<u64>().ok()) {
                            for k in (n + 1)..(n * 10) {
                                inst(&mut app, fp_id, &r.fp_owner, json!({}), &format!("unrelated{}", k))?;
                            }
                        }
                    }
                    addrs.vamms.push(va);
                }
                exec(&mut app, &r.fp_owner, &addrs.fee_pool, json!({"add_token": {"token": collateral}}))?;
                // fund the insurance fund and set allowances
                if cfg.if_balance > 0 {
                    match &addrs.cw20 {
                        Some(tok) => exec(
                            &mut app,
                            TREASURY,
                            tok,
                            json!({"transfer": {"recipient": addrs.insurance_fund, "amount": cfg.if_balance.to_string()}}),
                        )?,
                        None => {
                            app.execute(
                                Addr::unchecked(TREASURY),
                                CosmosMsg::Bank(BankMsg::Send {
                                    to_address: addrs.insurance_fund.clone(),
                                    amount: coins(cfg.if_balance, DENOM),
                                }),
                            )
                            .map_err(|e| format!("fund if: {:#}", e))?;
                        }
                    }
                }
                if let Some(tok) = &addrs.cw20 {
                    let allow = cfg.allowance.unwrap_or(u128::MAX / 4);
                    for (a, amt) in funded.iter() {
                        if *amt > 0 && a != TREASURY {
                            exec(&mut app, a, tok, json!({"increase_allowance": {"spender": addrs.engine, "amount": allow.to_string(), "expires": null}}))?;
                        }
                    }
                }
            }
            WorldKind::VammDirect => {
                let va_id = app.store_code(c_vamm());
                let pf_id = app.store_code(match cfg.oracle {
                    OracleKind::Mock => c_pf_mock(),
                    OracleKind::Real => c_pf_real(),
                });
                addrs.engine = DRIVER.to_string();
                addrs.insurance_fund = IF_EOA.to_string();
                addrs.pricefeed = inst(&mut app, pf_id, &r.pf_owner, json!({"oracle_hub_contract": "oracle_hub0000"}), "pricefeed")?;
                for (i, v) in cfg.vamms.iter().enumerate() {
                    let va = inst(
                        &mut app,
                        va_id,
                        &r.vamm_owner,
                        json!({"decimals": v.decimals, "pricefeed": addrs.pricefeed, "margin_engine": DRIVER,
                            "insurance_fund": IF_EOA, "quote_asset": "USD", "base_asset": KEYS[i],
                            "quote_asset_reserve": v.q.to_string(), "base_asset_reserve": v.b.to_string(),
                            "funding_period": v.funding_period, "toll_ratio": v.toll.to_string(),
                            "spread_ratio": v.spread.to_string(), "fluctuation_limit_ratio": v.fluct.to_string()}),
                        &format!("vamm{}", i),
                    )?;
                    if v.twap_interval.is_some() {
                        exec(
                            &mut app,
                            &r.vamm_owner,
                            &va,
                            json!({"update_config": {"base_asset_holding_cap": null,
                                "open_interest_notional_cap": null, "toll_ratio": null, "spread_ratio": null,
                                "fluctuation_limit_ratio": null, "margin_engine": null, "insurance_fund": null,
                                "pricefeed": null, "spot_price_twap_interval": v.twap_interval}}),
                        )?;
                    }
                    if v.open {
                        exec(&mut app, &r.vamm_owner, &va, json!({"set_open": {"open": true}}))?;
                    }
                    exec(
                        &mut app,
                        &r.pf_owner,
                        &addrs.pricefeed,
                        json!({"append_price": {"key": KEYS[i], "price": v.oracle_price.to_string(), "timestamp": cfg.start_time}}),
                    )?;
                    addrs.vamms.push(va);
                }
            }
            WorldKind::FeedOnly => {
                let pf_id = app.store_code(c_pf_real());
                addrs.pricefeed = inst(&mut app, pf_id, &r.pf_owner, json!({"oracle_hub_contract": "oracle_hub0000"}), "pricefeed")?;
            }
        }
        addrs.if1 = addrs.insurance_fund.clone();
        if let (WorldKind::Standard, Some(bal)) = (&cfg.kind, cfg.spare_if) {
            // deployed last, so that every other address is what it is without it
            let if_id = app.store_code(c_if());
            let a = inst(&mut app, if_id, &r.if_owner, json!({"engine": addrs.engine}), "insurance_fund_2")?;
            if bal > 0 {
                match &addrs.cw20 {
                    Some(tok) => exec(&mut app, TREASURY, tok, json!({"transfer": {"recipient": a, "amount": bal.to_string()}}))?,
                    None => {
                        app.execute(Addr::unchecked(TREASURY), CosmosMsg::Bank(BankMsg::Send { to_address: a.clone(), amount: coins(bal, DENOM) }))
                            .map_err(|e| format!("fund if2: {:#}", e))?;
                    }
                }
            }
            addrs.if2 = Some(a);
        }
        let mut w = World { cfg: cfg.clone(), app, addrs, accounts, d };
        w.advance(1, 15);
        Ok(w)
    }

    /// dt = 0 stands for a sub-second block interval: the height advances, the clock by 150-900 ms only, so consecutive
    /// blocks can share the same whole second
    pub fn advance(&mut self, dh: u64, dt: u64) {
        self.app.update_block(|b| {
            b.height += dh;
            // dt == 0: a sub-second block interval (block time still strictly increases); the fraction varies with the
            // height so that consecutive blocks carry different sub-second parts
            b.time = if dt == 0 { b.time.plus_nanos([300u64, 700, 150, 450, 900][(b.height % 5) as usize] * 1_000_000) } else { b.time.plus_seconds(dt) };
        });
    }

    pub fn now(&self) -> u64 {
        self.app.block_info().time.seconds()
    }
    pub fn height(&self) -> u64 {
        self.app.block_info().height
    }

    pub fn resolve(&self, name: &str) -> String {
        if let Some(rest) = name.strip_prefix('@') {
            match rest {
                "engine" => self.addrs.engine.clone(),
                "if" => self.addrs.insurance_fund.clone(),
                "if1" => self.addrs.if1.clone(),
                "if2" => self.addrs.if2.clone().unwrap_or_else(|| "noif2".into()),
                "fp" => self.addrs.fee_pool.clone(),
                "pf" => self.addrs.pricefeed.clone(),
                "cw20" => self.addrs.cw20.clone().unwrap_or_else(|| "nocw20".into()),
                "token" => match &self.addrs.cw20 {
                    Some(a) => a.clone(),
                    None => DENOM.to_string(),
                },
                _ => {
                    if let Some(i) = rest.strip_prefix("vamm") {
                        let i: usize = i.parse().unwrap_or(0);
                        self.addrs.vamms.get(i).cloned().unwrap_or_else(|| "novamm".into())
                    } else {
                        rest.to_string()
                    }
                }
            }
        } else {
            name.to_string()
        }
    }

    pub fn token_asset(&self) -> Value {
        match &self.addrs.cw20 {
            Some(a) => json!({"token": {"contract_addr": a}}),
            None => json!({"native_token": {"denom": DENOM}}),
        }
    }

    pub fn target_addr(&self, t: Target) -> String {
        match t {
            Target::Engine => self.addrs.engine.clone(),
            Target::Vamm(i) => self.addrs.vamms.get(i).cloned().unwrap_or_else(|| "novamm".into()),
            Target::InsuranceFund => self.addrs.insurance_fund.clone(),
            Target::FeePool => self.addrs.fee_pool.clone(),
            Target::PriceFeed => self.addrs.pricefeed.clone(),
            Target::Cw20 => self.addrs.cw20.clone().unwrap_or_else(|| "nocw20".into()),
            Target::Bank => "bank".into(),
        }
    }

    pub fn op_json(&self, op: &Op) -> Value {
        let r = |s: &str| self.resolve(s);
        let va = |i: usize| self.addrs.vamms.get(i).cloned().unwrap_or_else(|| "novamm".into());
        let key = |i: usize| KEYS[i.min(3)].to_string();
        op_to_json(op, &r, &va, &key, &self.token_asset())
    }

    fn run_msgs(&mut self, sender: &str, msgs: Vec<CosmosMsg>, fault: Option<Fault>) -> ExecOut {
        fault::begin_tx(fault);
        let sender_addr = Addr::unchecked(sender);
        let app = &mut self.app;
        let res = catch_unwind(AssertUnwindSafe(|| app.execute_multi(sender_addr, msgs)));
        let ctl = fault::end_tx();
        let mut out = ExecOut { n_msgs: ctl.counter, trace: ctl.trace, fault_fired: ctl.fired, ..Default::default() };
        match res {
            Ok(Ok(rs)) => {
                out.ok = true;
                for r in rs {
                    out.events.extend(r.events);
                }
            }
            Ok(Err(e)) => {
                out.err = format!("{:#}", e);
            }
            Err(p) => {
                out.panicked = true;
                out.err = if let Some(s) = p.downcast_ref::<String>() {
                    format!("panic: {}", s)
                } else if let Some(s) = p.downcast_ref::<&str>() {
                    format!("panic: {}", s)
                } else {
                    "panic".to_string()
                };
            }
        }
        out
    }

    /// Execute one operation as `actor` (an account name or a symbolic contract name).
    pub fn exec(&mut self, actor: &str, op: &Op, funds: U, fault: Option<Fault>) -> ExecOut {
        let sender = self.resolve(actor);
        match op {
            Op::SetAllowance { amount } => {
                let tok = match &self.addrs.cw20 {
                    Some(t) => t.clone(),
                    None => return ExecOut { ok: false, err: "no cw20".into(), ..Default::default() },
                };
                let cur = self.allowance(&sender);
                let mut msgs = vec![];
                if cur > 0 {
                    msgs.push(CosmosMsg::Wasm(WasmMsg::Execute {
                        contract_addr: tok.clone(),
                        msg: bin(&json!({"decrease_allowance": {"spender": self.addrs.engine, "amount": cur.to_string(), "expires": null}})),
                        funds: vec![],
                    }));
                }
                if *amount > 0 {
                    msgs.push(CosmosMsg::Wasm(WasmMsg::Execute {
                        contract_addr: tok,
                        msg: bin(&json!({"increase_allowance": {"spender": self.addrs.engine, "amount": amount.to_string(), "expires": null}})),
                        funds: vec![],
                    }));
                }
                if msgs.is_empty() {
                    return ExecOut { ok: true, ..Default::default() };
                }
                self.run_msgs(&sender, msgs, fault)
            }
            Op::Transfer { to, amount } => {
                let to = self.resolve(to);
                let msg = match &self.addrs.cw20 {
                    Some(tok) => CosmosMsg::Wasm(WasmMsg::Execute {
                        contract_addr: tok.clone(),
                        msg: bin(&json!({"transfer": {"recipient": to, "amount": amount.to_string()}})),
                        funds: vec![],
                    }),
                    None => CosmosMsg::Bank(BankMsg::Send { to_address: to, amount: coins(*amount, DENOM) }),
                };
                self.run_msgs(&sender, vec![msg], fault)
            }
            _ => {
                let to = self.target_addr(op.target());
                let msg = self.op_json(op);
                let f = if funds > 0 && self.cfg.coll.is_native() { coins(funds, DENOM) } else { vec![] };
                let m = CosmosMsg::Wasm(WasmMsg::Execute { contract_addr: to, msg: bin(&msg), funds: f });
                self.run_msgs(&sender, vec![m], fault)
            }
        }
    }

    /// Smart query returning parsed JSON; a trapped (panicking) query is reported as Err("panic: ...").
    pub fn q(&self, addr: &str, msg: Value) -> Result<Value, String> {
        let req: QueryRequest<Empty> = QueryRequest::Wasm(WasmQuery::Smart { contract_addr: addr.to_string(), msg: bin(&msg) });
        let raw = to_vec(&req).map_err(|e| e.to_string())?;
        let app = &self.app;
        let res = catch_unwind(AssertUnwindSafe(|| app.raw_query(&raw)));
        match res {
            Ok(SystemResult::Ok(ContractResult::Ok(b))) => serde_json::from_slice(b.as_slice()).map_err(|e| format!("bad json: {}", e)),
            Ok(SystemResult::Ok(ContractResult::Err(e))) => Err(e),
            Ok(SystemResult::Err(e)) => Err(format!("system: {}", e)),
            Err(p) => Err(if let Some(s) = p.downcast_ref::<String>() {
                format!("panic: {}", s)
            } else if let Some(s) = p.downcast_ref::<&str>() {
                format!("panic: {}", s)
            } else {
                "panic".to_string()
            }),
        }
    }

    pub fn allowance(&self, owner: &str) -> U {
        match &self.addrs.cw20 {
            Some(tok) => self
                .q(tok, json!({"allowance": {"owner": owner, "spender": self.addrs.engine}}))
                .ok()
                .and_then(|v| v["allowance"].as_str().and_then(|s| s.parse().ok()))
                .unwrap_or(0),
            None => u128::MAX,
        }
    }

    // ---------------- raw state

    pub fn dump(&self) -> Dump {
        self.app.read_module(|_r, _a, s| s.range(None, None, Order::Ascending).collect())
    }

    pub fn snapshot(&self) -> Snap {
        Snap { dump: self.dump(), block: self.app.block_info() }
    }

    pub fn restore(&mut self, snap: &Snap) {
        let cur = self.dump();
        self.app.init_modules(|_r, _a, s| {
            // merge-walk: touch only keys that differ
            let (mut i, mut j) = (0usize, 0usize);
            let (a, b) = (&cur, &snap.dump);
            while i < a.len() || j < b.len() {
                if j >= b.len() || (i < a.len() && a[i].0 < b[j].0) {
                    s.remove(&a[i].0);
                    i += 1;
                } else if i >= a.len() || b[j].0 < a[i].0 {
                    s.set(&b[j].0, &b[j].1);
                    j += 1;
                } else {
                    if a[i].1 != b[j].1 {
                        s.set(&b[j].0, &b[j].1);
                    }
                    i += 1;
                    j += 1;
                }
            }
        });
        self.app.set_block(snap.block.clone());
    }

    pub fn contract_prefix(addr: &str) -> Vec<u8> {
        let mut p = lp(b"wasm");
        let mut ns = b"contract_data/".to_vec();
        ns.extend_from_slice(addr.as_bytes());
        p.extend(lp(&ns));
        p
    }

    /// every holder of the collateral, read from the raw dump (so unexpected holders are seen)
    pub fn census(&self, dump: &Dump) -> BTreeMap<String, U> {
        let mut out = BTreeMap::new();
        match &self.addrs.cw20 {
            Some(tok) => {
                let mut p = World::contract_prefix(tok);
                p.extend(lp(b"balance"));
                for (k, v) in dump.iter() {
                    if k.starts_with(&p) {
                        let who = String::from_utf8_lossy(&k[p.len()..]).to_string();
                        let s: String = serde_json::from_slice(v).unwrap_or_default();
                        let amt: U = s.parse().unwrap_or(0);
                        if amt > 0 {
                            out.insert(who, amt);
                        }
                    }
                }
            }
            None => {
                let mut p = lp(b"bank");
                p.extend(lp(b"balances"));
                for (k, v) in dump.iter() {
                    if k.starts_with(&p) {
                        let who = String::from_utf8_lossy(&k[p.len()..]).to_string();
                        let coins: Value = serde_json::from_slice(v).unwrap_or(Value::Null);
                        if let Some(arr) = coins.as_array() {
                            for c in arr {
                                if c["denom"].as_str() == Some(DENOM) {
                                    let amt: U = c["amount"].as_str().and_then(|s| s.parse().ok()).unwrap_or(0);
                                    if amt > 0 {
                                        out.insert(who.clone(), amt);
                                    }
                                }
                            }
                        }
                    }
                }
            }
        }
        out
    }

    /// balance through the public query interface (used to cross-check the raw census)
    pub fn balance_q(&self, who: &str) -> U {
        match &self.addrs.cw20 {
            Some(tok) => self
                .q(tok, json!({"balance": {"address": who}}))
                .ok()
                .and_then(|v| v["balance"].as_str().and_then(|s| s.parse().ok()))
                .unwrap_or(0),
            None => self
                .app
                .wrap()
                .query_balance(who, DENOM)
                .map(|c| c.amount.u128())
                .unwrap_or(0),
        }
    }

    /// engine raw keys that must never survive a transaction
    pub fn engine_residue(&self, dump: &Dump) -> Vec<&'static str> {
        let p = World::contract_prefix(&self.addrs.engine);
        let mut out = vec![];
        for name in ["tmp-swap", "sent-funds", "tmp-liquidator"] {
            let mut k = p.clone();
            k.extend(lp(name.as_bytes()));
            if dump.binary_search_by(|(kk, _)| kk.as_slice().cmp(k.as_slice())).is_ok() {
                out.push(name);
            }
        }
        // the three records are named by what they are, not by their storage key: any engine key that reads like an
        // in-flight record (kept under another key, in a bucket, ...) counts as well
        if out.is_empty() {
            let has = |hay: &[u8], needle: &[u8]| hay.windows(needle.len()).any(|w| w == needle);
            for (k, _) in dump.iter() {
                if k.starts_with(&p) {
                    let rest = &k[p.len()..];
                    if has(rest, b"tmp-") || has(rest, b"tmp_") || has(rest, b"sent-funds") || has(rest, b"sent_funds") {
                        out.push("in-flight-like key");
                        break;
                    }
                }
            }
        }
        out
    }
}

/// serde wrapper so that cw-multi-test's typed helpers can carry an arbitrary JSON message
pub struct RawJson(pub Value);
impl serde::Serialize for RawJson {
    fn serialize<S: serde::Serializer>(&self, s: S) -> Result<S::Ok, S::Error> {
        ser_value(&self.0, s)
    }
}
fn ser_value<S: serde::Serializer>(v: &Value, s: S) -> Result<S::Ok, S::Error> {
    use serde::ser::{SerializeSeq, SerializeStruct};
    match v {
        Value::Null => s.serialize_none(),
        Value::Bool(b) => s.serialize_bool(*b),
        Value::Number(n) => {
            if let Some(u) = n.as_u64() {
                s.serialize_u64(u)
            } else if let Some(i) = n.as_i64() {
                s.serialize_i64(i)
            } else {
                s.serialize_f64(n.as_f64().unwrap_or(0.0))
            }
        }
        Value::String(x) => s.serialize_str(x),
        Value::Array(a) => {
            let mut seq = s.serialize_seq(Some(a.len()))?;
            for x in a {
                seq.serialize_element(&RawJson(x.clone()))?;
            }
            seq.end()
        }
        Value::Object(m) => {
            // serde-json-wasm has no map support; a struct with leaked static field names does the job for the
            // handful of instantiate messages built at world construction
            let mut st = s.serialize_struct("obj", m.len())?;
            for (k, x) in m.iter() {
                let key: &'static str = intern(k);
                st.serialize_field(key, &RawJson(x.clone()))?;
            }
            st.end()
        }
    }
}

thread_local! {
    static INTERN: std::cell::RefCell<std::collections::HashMap<String, &'static str>> = std::cell::RefCell::new(std::collections::HashMap::new());
}
/// field names of the few setup messages, leaked once per distinct name
fn intern(k: &str) -> &'static str {
    INTERN.with(|m| {
        let mut m = m.borrow_mut();
        if let Some(s) = m.get(k) {
            return *s;
        }
        let s: &'static str = Box::leak(k.to_string().into_boxed_str());
        m.insert(k.to_string(), s);
        s
    })
}
