//! Fault layer: every contract and the bank module are wrapped; each `execute` passes through `tick`,
//! which numbers the messages of the current transaction in pre-order and fails the one the plan names.

use anyhow::{bail, Result as AnyResult};
use cosmwasm_std::{
    Addr, Api, BankMsg, BankQuery, Binary, BlockInfo, CustomQuery, Deps, DepsMut, Empty, Env,
    MessageInfo, Querier, Reply, Response, Storage,
};
use cw_multi_test::{AppResponse, Bank, BankKeeper, BankSudo, Contract, CosmosRouter, Module};
use schemars::JsonSchema;
use serde::de::DeserializeOwned;
use std::cell::RefCell;

use crate::types::Fault;

#[derive(Default, Clone, Debug)]
pub struct TxCtl {
    pub counter: u32,
    pub plan: Option<Fault>,
    pub fired: Option<(u32, String)>,
    /// component name of every message executed (pre-order)
    pub trace: Vec<&'static str>,
}

thread_local! {
    static CTL: RefCell<TxCtl> = RefCell::new(TxCtl::default());
}

pub fn begin_tx(plan: Option<Fault>) {
    CTL.with(|c| {
        *c.borrow_mut() = TxCtl { counter: 0, plan, fired: None, trace: Vec::new() };
    });
}

pub fn end_tx() -> TxCtl {
    CTL.with(|c| std::mem::take(&mut *c.borrow_mut()))
}

pub const INJECTED: &str = "injected fault";

fn tick(name: &'static str) -> AnyResult<()> {
    CTL.with(|c| {
        let mut c = c.borrow_mut();
        c.counter += 1;
        c.trace.push(name);
        let k = c.counter;
        let hit = match &c.plan {
            Some(Fault::Index(i)) => *i == k,
            Some(Fault::Named { component, nth }) => {
                component == name
                    && c.trace.iter().filter(|n| **n == name).count() as u32 == *nth
            }
            None => false,
        };
        if hit && c.fired.is_none() {
            c.fired = Some((k, name.to_string()));
            bail!("{} at message {} ({})", INJECTED, k, name);
        }
        Ok(())
    })
}

pub struct FaultyContract {
    pub inner: Box<dyn Contract<Empty>>,
    pub name: &'static str,
}

impl Contract<Empty> for FaultyContract {
    fn execute(
        &self,
        deps: DepsMut<Empty>,
        env: Env,
        info: MessageInfo,
        msg: Vec<u8>,
    ) -> AnyResult<Response<Empty>> {
        tick(self.name)?;
        self.inner.execute(deps, env, info, msg)
    }
    fn instantiate(
        &self,
        deps: DepsMut<Empty>,
        env: Env,
        info: MessageInfo,
        msg: Vec<u8>,
    ) -> AnyResult<Response<Empty>> {
        self.inner.instantiate(deps, env, info, msg)
    }
    fn query(&self, deps: Deps<Empty>, env: Env, msg: Vec<u8>) -> AnyResult<Binary> {
        self.inner.query(deps, env, msg)
    }
    fn sudo(&self, deps: DepsMut<Empty>, env: Env, msg: Vec<u8>) -> AnyResult<Response<Empty>> {
        self.inner.sudo(deps, env, msg)
    }
    fn reply(&self, deps: DepsMut<Empty>, env: Env, msg: Reply) -> AnyResult<Response<Empty>> {
        self.inner.reply(deps, env, msg)
    }
    fn migrate(&self, deps: DepsMut<Empty>, env: Env, msg: Vec<u8>) -> AnyResult<Response<Empty>> {
        self.inner.migrate(deps, env, msg)
    }
}

pub struct FaultyBank(pub BankKeeper);

impl Module for FaultyBank {
    type ExecT = BankMsg;
    type QueryT = BankQuery;
    type SudoT = BankSudo;

    fn execute<ExecC, QueryC>(
        &self,
        api: &dyn Api,
        storage: &mut dyn Storage,
        router: &dyn CosmosRouter<ExecC = ExecC, QueryC = QueryC>,
        block: &BlockInfo,
        sender: Addr,
        msg: BankMsg,
    ) -> AnyResult<AppResponse>
    where
        ExecC: std::fmt::Debug + Clone + PartialEq + JsonSchema + DeserializeOwned + 'static,
        QueryC: CustomQuery + DeserializeOwned + 'static,
    {
        tick("bank")?;
        self.0.execute(api, storage, router, block, sender, msg)
    }

    fn sudo<ExecC, QueryC>(
        &self,
        api: &dyn Api,
        storage: &mut dyn Storage,
        router: &dyn CosmosRouter<ExecC = ExecC, QueryC = QueryC>,
        block: &BlockInfo,
        msg: BankSudo,
    ) -> AnyResult<AppResponse>
    where
        ExecC: std::fmt::Debug + Clone + PartialEq + JsonSchema + DeserializeOwned + 'static,
        QueryC: CustomQuery + DeserializeOwned + 'static,
    {
        self.0.sudo(api, storage, router, block, msg)
    }

    fn query(
        &self,
        api: &dyn Api,
        storage: &dyn Storage,
        querier: &dyn Querier,
        block: &BlockInfo,
        request: BankQuery,
    ) -> AnyResult<Binary> {
        self.0.query(api, storage, querier, block, request)
    }
}

impl Bank for FaultyBank {}
