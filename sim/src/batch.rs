//! Seeded search over many runs, merging of evidence, minimisation, replay files, known findings.

use serde::{Deserialize, Serialize};
use serde_json::{json, Value};
use std::collections::{BTreeMap, BTreeSet};
use std::sync::atomic::{AtomicBool, AtomicU64, Ordering};
use std::sync::Mutex;
use std::time::Instant;

use crate::gen::{gen_world, profile_for, Gen};
use crate::prng::Rng;
use crate::run::{Ev, Runner, Violation};
use crate::twin;
use crate::types::*;

#[derive(Serialize, Deserialize, Clone, Debug)]
pub struct ReplayFile {
    pub format: u32,
    pub property: String,
    pub signature: String,
    pub seed: u64,
    pub run: u64,
    pub world: WorldCfg,
    pub steps: Vec<Step>,
    pub violation: Option<Violation>,
    #[serde(default)]
    pub note: String,
}

#[derive(Serialize, Deserialize, Clone, Debug)]
pub struct KnownFinding {
    pub property: String,
    pub signature: String,
    /// "open" or "fixed:<commit>"
    pub status: String,
    pub what: String,
    #[serde(default)]
    pub replay: String,
}

pub fn prop_stream(prop: &str) -> u64 {
    prop.bytes().fold(7u64, |a, b| a.wrapping_mul(131).wrapping_add(b as u64))
}

#[derive(Default)]
pub struct RunResult {
    pub run: u64,
    pub ev: Ev,
    pub world: Option<WorldCfg>,
    pub steps: Vec<Step>,
    pub n_steps: u64,
    pub sim_seconds: u64,
    pub blocks: u64,
    pub tx_ok: u64,
    pub tx_err: u64,
    pub tx_panic: u64,
    pub states: BTreeSet<u64>,
    pub trigrams: BTreeSet<u64>,
    pub log: Vec<String>,
    pub harness_panic: Option<String>,
}

/// triage aid, never set by the registered commands: every eligible run becomes a marathon
fn force_marathon() -> bool {
    std::env::var("PERPSIM_FORCE_MARATHON").map(|v| v == "1").unwrap_or(false)
}

/// One complete seeded run: world, history, oracle. Pure function of (prop, seed, run).
pub fn one_run(prop: &str, seed: u64, run: u64, keep_log: bool) -> RunResult {
    if prop == "C13" {
        return twin::one_run(seed, run, keep_log);
    }
    let mut rng = Rng::new(seed, prop_stream(prop), run);
    let cfg = gen_world(&mut rng, prop);
    let mut profile = profile_for(prop);
    if prop == "C18" && cfg.kind != WorldKind::FeedOnly && rng.chance(1, 6) {
        // a long run of consecutive busy blocks
        profile.long_busy = true;
        profile.min_steps = 240;
        profile.max_steps = 420;
        profile.w = [80, 2, 4, 10, 2, 0, 0];
    }
    if matches!(prop, "C05" | "C06" | "C07") && rng.chance(1, 10) {
        // a long run of busy blocks a few seconds apart: the 15-minute window of the liquidation ratio then holds far
        // more reserve snapshots (well over a hundred) than any short history
        profile.long_busy = true;
        profile.min_steps = 180;
        profile.max_steps = 300;
        profile.w = [62, 16, 4, 16, 2, 0, 0];
    }
    // marathons: whatever a contract keeps in a list that grows with the history (or bounds it) is only exercised by
    // histories far longer than the usual ones
    if prop == "C11" && cfg.kind == WorldKind::Standard && cfg.vamms.len() == 1 && (rng.chance(1, 120) || force_marathon()) {
        profile.marathon = Some("funding");
        profile.min_steps = 380;
        profile.max_steps = 520;
        profile.w = [12, 74, 6, 6, 2, 0, 0];
        profile.p_fault = (0, 100);
    }
    if prop == "C18" && cfg.kind == WorldKind::FeedOnly && (rng.chance(1, 12) || force_marathon()) {
        profile.marathon = Some("feed");
        profile.min_steps = 560;
        profile.max_steps = 700;
    }
    if matches!(prop, "C15" | "C18" | "C01") && cfg.kind == WorldKind::VammDirect && (rng.chance(1, 25) || force_marathon()) {
        profile.marathon = Some("blocks");
        profile.long_busy = false;
        profile.min_steps = 2600;
        profile.max_steps = 3000;
        profile.w = [90, 0, 2, 0, 4, 0, 0];
    }
    if matches!(prop, "C05" | "C06" | "C07") && cfg.kind == WorldKind::Standard && cfg.vamms.len() == 1 && !profile.long_busy && (rng.chance(1, 30) || force_marathon()) {
        // many hundreds of trading blocks a second or less apart: far more reserve snapshots inside one 15-minute
        // window than the long busy histories reach
        profile.marathon = Some("seconds");
        profile.min_steps = 1500;
        profile.max_steps = 1800;
        profile.w = [62, 18, 2, 16, 2, 0, 0];
        profile.p_fault = (0, 100);
    }
    let n_steps = rng.range(profile.min_steps as u64, profile.max_steps as u64) as usize;
    let mut res = RunResult { run, world: Some(cfg.clone()), ..Default::default() };
    let mut r = match Runner::new(&cfg, prop) {
        Ok(r) => r,
        Err(e) => {
            res.ev.property = prop.to_string();
            res.ev.harness_error(format!("world build failed: {}", e));
            return res;
        }
    };
    r.keep_log = keep_log;
    let mut g = Gen::new(profile);
    for _ in 0..n_steps {
        let st = g.next(&mut r, &mut rng);
        r.apply(&st);
        res.steps.push(st);
    }
    r.finish();
    collect(&mut res, r);
    res
}

pub fn collect(res: &mut RunResult, r: Runner) {
    res.n_steps = r.steps_done as u64;
    res.sim_seconds = r.sim_seconds;
    res.blocks = r.blocks;
    res.tx_ok = r.tx_ok;
    res.tx_err = r.tx_err;
    res.tx_panic = r.tx_panic;
    res.states = r.abstract_states;
    res.trigrams = r.trigrams;
    res.log = r.log;
    res.ev = r.ev;
}

/// Re-execute a concrete history; returns the violations found (same oracle, no PRNG).
pub fn run_history(prop: &str, cfg: &WorldCfg, steps: &[Step], keep_log: bool) -> RunResult {
    if prop == "C13" {
        return twin::run_history(cfg, steps, keep_log);
    }
    let mut res = RunResult { world: Some(cfg.clone()), steps: steps.to_vec(), ..Default::default() };
    let mut r = match Runner::new(cfg, prop) {
        Ok(r) => r,
        Err(e) => {
            res.ev.property = prop.to_string();
            res.ev.harness_error(format!("world build failed: {}", e));
            return res;
        }
    };
    r.keep_log = keep_log;
    for st in steps.iter() {
        r.apply(st);
    }
    r.finish();
    collect(&mut res, r);
    res
}

fn has_sig(res: &RunResult, sig: &str) -> bool {
    res.ev.violations.iter().any(|v| v.signature == sig)
}

/// delta debugging over the step list, then per-step simplification; keeps only candidates with the same signature
const MIN_STEP_BUDGET: usize = 150_000;

pub fn minimise(prop: &str, cfg: &WorldCfg, steps: &[Step], sig: &str, budget: usize) -> Vec<Step> {
    let mut cur: Vec<Step> = steps.to_vec();
    let mut execs = 0usize;
    // very long histories (marathons) cost seconds per execution: the budget also counts executed steps, so that
    // minimisation stays bounded (and deterministic - no wall clock is read)
    let budget = budget.min((MIN_STEP_BUDGET / steps.len().max(1)).max(40));
    // cut the tail after the violating step first
    if let Some(v) = run_history(prop, cfg, &cur, false).ev.violations.iter().find(|v| v.signature == sig) {
        let keep = (v.step + 1).min(cur.len());
        let cand: Vec<Step> = cur[..keep].to_vec();
        if has_sig(&run_history(prop, cfg, &cand, false), sig) {
            cur = cand;
        }
    }
    let mut chunk = (cur.len() / 2).max(1);
    while chunk >= 1 && execs < budget {
        let mut i = 0;
        let mut progress = false;
        while i < cur.len() && execs < budget {
            let end = (i + chunk).min(cur.len());
            if end - i == cur.len() {
                i = end;
                continue;
            }
            let mut cand = cur.clone();
            let removed: Vec<Step> = cand.drain(i..end).collect();
            // keep the clock: move the removed steps' advances onto the next kept step
            let (mut dh, mut dt) = (0u64, 0u64);
            for s in removed.iter() {
                if let Some((a, b)) = s.clock {
                    dh += a;
                    dt += b;
                }
            }
            if (dh > 0 || dt > 0) && i < cand.len() {
                let c = cand[i].clock.unwrap_or((0, 0));
                cand[i].clock = Some((c.0 + dh, c.1 + dt));
            }
            execs += 1;
            if has_sig(&run_history(prop, cfg, &cand, false), sig) {
                cur = cand;
                progress = true;
            } else {
                i = end;
            }
        }
        if chunk == 1 && !progress {
            break;
        }
        if !progress {
            chunk /= 2;
        } else {
            chunk = chunk.min(cur.len().max(1));
            if chunk > 1 {
                chunk /= 2;
            }
        }
    }
    // per-step simplification: drop fault plans, probes that are not needed, collapse clocks
    for i in 0..cur.len() {
        if execs >= budget {
            break;
        }
        if cur[i].fault.is_some() {
            let mut cand = cur.clone();
            cand[i].fault = None;
            execs += 1;
            if has_sig(&run_history(prop, cfg, &cand, false), sig) {
                cur = cand;
            }
        }
        if !cur[i].probes.is_empty() && i + 1 != cur.len() {
            let mut cand = cur.clone();
            cand[i].probes.clear();
            execs += 1;
            if has_sig(&run_history(prop, cfg, &cand, false), sig) {
                cur = cand;
            }
        }
        if let Some((dh, dt)) = cur[i].clock {
            for alt in [None, Some((1u64, 15u64)), Some((1, dt)), Some((dh.min(1), dt))] {
                if alt == cur[i].clock {
                    continue;
                }
                let mut cand = cur.clone();
                cand[i].clock = alt;
                execs += 1;
                if has_sig(&run_history(prop, cfg, &cand, false), sig) {
                    cur = cand;
                    break;
                }
            }
        }
    }
    cur
}

/// try simpler worlds (fewer moving parts) while the same signature persists
pub fn simplify_world(prop: &str, cfg: &WorldCfg, steps: &[Step], sig: &str) -> WorldCfg {
    let mut cur = cfg.clone();
    let mut tries: Vec<Box<dyn Fn(&WorldCfg) -> Option<WorldCfg>>> = vec![];
    tries.push(Box::new(|c| {
        if c.oracle == OracleKind::Real && c.kind == WorldKind::Standard {
            let mut n = c.clone();
            n.oracle = OracleKind::Mock;
            Some(n)
        } else {
            None
        }
    }));
    tries.push(Box::new(|c| {
        if c.roles.owner != c.roles.pauser || c.roles.owner != c.roles.if_owner {
            let mut n = c.clone();
            let o = c.roles.owner.clone();
            n.roles = Roles { owner: o.clone(), pauser: o.clone(), if_owner: o.clone(), fp_owner: o.clone(), pf_owner: o.clone(), vamm_owner: o };
            Some(n)
        } else {
            None
        }
    }));
    tries.push(Box::new(|c| {
        if c.allowance.is_some() {
            let mut n = c.clone();
            n.allowance = None;
            Some(n)
        } else {
            None
        }
    }));
    for field in 0..6 {
        tries.push(Box::new(move |c| {
            let mut n = c.clone();
            let mut changed = false;
            for v in n.vamms.iter_mut() {
                match field {
                    0 if v.toll != 0 => {
                        v.toll = 0;
                        changed = true;
                    }
                    1 if v.spread != 0 => {
                        v.spread = 0;
                        changed = true;
                    }
                    2 if v.fluct != 0 => {
                        v.fluct = 0;
                        changed = true;
                    }
                    3 if v.oi_cap != 0 || v.holding_cap != 0 => {
                        v.oi_cap = 0;
                        v.holding_cap = 0;
                        changed = true;
                    }
                    4 if v.twap_interval.is_some() => {
                        v.twap_interval = None;
                        changed = true;
                    }
                    5 if v.funding_period != 3600 => {
                        v.funding_period = 3600;
                        changed = true;
                    }
                    _ => {}
                }
            }
            if changed {
                Some(n)
            } else {
                None
            }
        }));
    }
    tries.push(Box::new(|c| {
        // drop trailing vAMMs that no step refers to
        let mut n = c.clone();
        if n.vamms.len() > 1 {
            n.vamms.pop();
            Some(n)
        } else {
            None
        }
    }));
    for t in tries.iter() {
        if let Some(cand) = t(&cur) {
            let uses_dropped = cand.vamms.len() < cur.vamms.len() && steps.iter().any(|s| s.op.vamm_idx().map(|v| v >= cand.vamms.len()).unwrap_or(false) || format!("{:?}", s.op).contains(&format!("@vamm{}", cand.vamms.len())));
            if uses_dropped {
                continue;
            }
            let ok = std::panic::catch_unwind(|| has_sig(&run_history(prop, &cand, steps, false), sig)).unwrap_or(false);
            if ok {
                cur = cand;
            }
        }
    }
    cur
}

pub struct BatchOut {
    pub runs: u64,
    pub evidence: Value,
    pub violations: Vec<(ReplayFile, bool)>,
    pub harness_errors: Vec<String>,
    pub known_hits: BTreeMap<String, u64>,
}

pub fn load_known(verif: &str) -> Vec<KnownFinding> {
    let p = format!("{}/known_findings.json", verif);
    match std::fs::read_to_string(&p) {
        Ok(s) => serde_json::from_str(&s).unwrap_or_default(),
        Err(_) => vec![],
    }
}

pub fn level_of(prop: &str) -> &'static str {
    match prop {
        "C08" | "C09" | "C14" => "fault_enumeration",
        _ => "exploration",
    }
}

pub fn rule_of(prop: &str) -> &'static str {
    match prop {
        "C01" => "one evaluation = one accepted swap (direct or engine-driven) whose before/after vAMM states were compared; non-trivial when both amounts > 0; distinct by (op kind, direction, rounding happened, log2 bucket of amount/reserve, price-scale class)",
        "C02" => "one evaluation = one transaction after which the sum of position sizes was compared with the vAMM net size (delta form); non-trivial when a position or the net size changed or a fault was injected; distinct by (op kind, reply arm, sign of change, #open positions, success)",
        "C03" => "one evaluation = one transaction with a full census of every collateral holder before/after; non-trivial when a balance moved or a fault fired; distinct by (collateral kind, op kind, set of roles whose balance changed, result class)",
        "C04" => "one evaluation = one successful close (whole/partial) or trader action moving the insurance fund; non-trivial when PnL or funding is non-zero or the vault was short; distinct by (whole/partial, side, sign PnL, sign funding, vault short, fees on)",
        "C05" => "one evaluation = one successful open/deposit/withdraw checked against the reference, or one boundary-leverage open attempt; distinct by (op sub-kind, binding PnL, boundary class, init=maint)",
        "C06" => "one evaluation = one Liquidate attempt with the reference liquidation ratio computed; non-trivial when the position exists; distinct by (success, binding PnL, ratio bucket vs maintenance, partial class, side)",
        "C07" => "one evaluation = one liveness probe whose stated preconditions all held (forked Liquidate); distinct by (oracle kind, ratio sign/bucket, partial class, vault short, side, #vAMMs)",
        "C08" => "one evaluation = one faulted execution (state, op, k) - every k in 1..=N for each sampled (state, op); non-trivial when N>=2 and the fault fired; distinct by (op kind, N, k, failing component)",
        "C09" => "one evaluation = one cell of the privileged-message x sender matrix executed in a fork; non-trivial when the sender is not entitled, or entitled and succeeded; distinct by (contract, variant, sender kind, after-transfer)",
        "C10" => "one evaluation = one transaction with every foreign position compared before/after (or one sweep of the query surface); non-trivial when a foreign position exists; distinct by (op kind, #foreign positions, success, liquidation)",
        "C11" => "one evaluation = one PayFunding attempt or one position event with the funding owed computed; non-trivial near the funding time or when funding owed != 0; distinct by (attempt timing, premium sign, payment class) U (event kind, sign of funding owed)",
        "C12" => "one evaluation = one successful fee-bearing or fee-free operation with its ledger; non-trivial when a fee ratio != 0; distinct by (op kind, reversal, fee rounds to 0, toll/spread class)",
        "C13" => "one evaluation = one step forwarded to both twins; non-trivial when collateral moved in the cw20 twin; distinct by (op sub-kind, refund vs top-up, fees on)",
        "C14" => "one evaluation = one gate probe (op under a gate combination) or one shutdown subset; non-trivial when a gate is closed; distinct by (op kind, paused, open, registered) U (shutdown subset)",
        "C15" => "one evaluation = one successful open/close on a vAMM with a limit, or one open attempted from outside the band; non-trivial near a band edge or on a partial close; distinct by (op kind, side, edge approached, trades so far in block)",
        "C16" => "one evaluation = one open/close attempted (main history or fork) in a block containing a liquidation on that vAMM; distinct by (actor relation, restricted, op kind)",
        "C17" => "one evaluation = one query-then-execute pair; non-trivial when the amount > 0; distinct by (level, swap kind, direction, limit relation, rounding)",
        "C18" => "one evaluation = one TWAP/latest/previous query compared with the harness's own price record; non-trivial with >= 2 distinct prices on record; distinct by (source, interval vs history, window class, trades in block)",
        "C20" => "one evaluation = one config update attempt or one cap-relevant trade; non-trivial at a boundary value or with a cap set; distinct by (contract, field set, accepted, boundary class) U (cap kind, whitelisted, near cap)",
        _ => "",
    }
}

#[derive(Default)]
struct Agg {
    runs: u64,
    evaluations: u64,
    keys: BTreeSet<u64>,
    counters: BTreeMap<String, u64>,
    samples: Vec<(u64, Value)>,
    states: BTreeSet<u64>,
    trigrams: BTreeSet<u64>,
    steps: u64,
    sim_s: u64,
    blocks: u64,
    ok: u64,
    err: u64,
    pan: u64,
    forks: u64,
    harness_errors: Vec<(u64, String)>,
    world_kinds: BTreeMap<String, u64>,
    sig_counts: BTreeMap<String, u64>,
    /// runs that produced a violation keep their full history (needed for minimisation)
    violating: Vec<RunResult>,
    open_sigs: BTreeSet<String>,
}

impl Agg {
    fn absorb(&mut self, r: RunResult) {
        self.runs += 1;
        if let Some(p) = &r.harness_panic {
            self.harness_errors.push((r.run, format!("harness panic: {}", p)));
            return;
        }
        self.evaluations += r.ev.evaluations;
        self.keys.extend(r.ev.nontrivial_keys.iter());
        for (k, v) in r.ev.counters.iter() {
            *self.counters.entry(k.clone()).or_insert(0) += v;
        }
        for s in r.ev.samples.iter() {
            self.samples.push((r.run, s.clone()));
        }
        self.samples.sort_by_key(|x| x.0);
        self.samples.truncate(5);
        self.states.extend(r.states.iter());
        self.trigrams.extend(r.trigrams.iter());
        self.steps += r.n_steps;
        self.sim_s += r.sim_seconds;
        self.blocks += r.blocks;
        self.ok += r.tx_ok;
        self.err += r.tx_err;
        self.pan += r.tx_panic;
        self.forks += r.ev.forks;
        for e in r.ev.harness_errors.iter() {
            if self.harness_errors.len() < 10 {
                self.harness_errors.push((r.run, e.clone()));
            }
        }
        if let Some(w) = &r.world {
            let k = format!("{:?}/{}/{:?}", w.kind, if w.coll.is_native() { "native".to_string() } else { format!("cw20-{}", w.coll.decimals()) }, w.oracle);
            *self.world_kinds.entry(k).or_insert(0) += 1;
        }
        for v in r.ev.violations.iter() {
            *self.sig_counts.entry(v.signature.clone()).or_insert(0) += 1;
        }
        // histories are kept only for violations that no open known finding explains
        if r.ev.violations.iter().any(|v| !self.open_sigs.contains(&v.signature)) {
            self.violating.push(r);
            if self.violating.len() > 512 {
                // keep the lowest run indices so that what is reported does not depend on worker timing
                let (mi, _) = self.violating.iter().enumerate().max_by_key(|(_, x)| x.run).unwrap();
                self.violating.swap_remove(mi);
            }
        }
    }
    fn merge(&mut self, o: Agg) {
        self.runs += o.runs;
        self.evaluations += o.evaluations;
        self.keys.extend(o.keys);
        for (k, v) in o.counters {
            *self.counters.entry(k).or_insert(0) += v;
        }
        self.samples.extend(o.samples);
        self.samples.sort_by_key(|x| x.0);
        self.samples.truncate(5);
        self.states.extend(o.states);
        self.trigrams.extend(o.trigrams);
        self.steps += o.steps;
        self.sim_s += o.sim_s;
        self.blocks += o.blocks;
        self.ok += o.ok;
        self.err += o.err;
        self.pan += o.pan;
        self.forks += o.forks;
        self.harness_errors.extend(o.harness_errors);
        for (k, v) in o.world_kinds {
            *self.world_kinds.entry(k).or_insert(0) += v;
        }
        for (k, v) in o.sig_counts {
            *self.sig_counts.entry(k).or_insert(0) += v;
        }
        self.violating.extend(o.violating);
        self.violating.sort_by_key(|x| x.run);
        self.violating.truncate(512);
    }
}

#[allow(clippy::too_many_arguments)]
pub fn run_batch(prop: &str, seed: u64, runs: u64, workers: usize, wall_cap_s: u64, verif: &str, tier: &str, min_budget: usize) -> BatchOut {
    let t0 = Instant::now();
    let next = AtomicU64::new(0);
    let stop = AtomicBool::new(false);
    let known = load_known(verif);
    let open_sigs: BTreeSet<String> = known.iter().filter(|k| k.property == prop && k.status == "open").map(|k| k.signature.clone()).collect();
    let total: Mutex<Agg> = Mutex::new(Agg { open_sigs: open_sigs.clone(), ..Default::default() });
    std::thread::scope(|s| {
        for _ in 0..workers.max(1) {
            s.spawn(|| {
                let mut local = Agg { open_sigs: open_sigs.clone(), ..Default::default() };
                loop {
                    if stop.load(Ordering::Relaxed) {
                        break;
                    }
                    let i = next.fetch_add(1, Ordering::Relaxed);
                    if i >= runs {
                        break;
                    }
                    let res = match std::panic::catch_unwind(|| one_run(prop, seed, i, false)) {
                        Ok(r) => r,
                        Err(p) => {
                            let msg = if let Some(s) = p.downcast_ref::<String>() {
                                s.clone()
                            } else if let Some(s) = p.downcast_ref::<&str>() {
                                s.to_string()
                            } else {
                                "panic".into()
                            };
                            RunResult { run: i, harness_panic: Some(format!("{} [{}]", msg, crate::last_panic())), ..Default::default() }
                        }
                    };
                    local.absorb(res);
                    if t0.elapsed().as_secs() > wall_cap_s {
                        stop.store(true, Ordering::Relaxed);
                    }
                }
                total.lock().unwrap().merge(local);
            });
        }
    });
    let mut agg = total.into_inner().unwrap();
    let done = agg.runs;
    let truncated = done < runs;
    agg.violating.sort_by_key(|r| r.run);
    agg.harness_errors.sort();

    let evaluations = agg.evaluations;
    let keys = std::mem::take(&mut agg.keys);
    let counters = std::mem::take(&mut agg.counters);
    let samples: Vec<Value> = agg.samples.iter().map(|x| x.1.clone()).collect();
    let states = std::mem::take(&mut agg.states);
    let trigrams = std::mem::take(&mut agg.trigrams);
    let (steps, sim_s, blocks, ok, err, pan, forks) = (agg.steps, agg.sim_s, agg.blocks, agg.ok, agg.err, agg.pan, agg.forks);
    let harness_errors: Vec<String> = agg.harness_errors.iter().take(10).map(|(r, e)| format!("run {}: {}", r, e)).collect();
    let sig_counts = std::mem::take(&mut agg.sig_counts);
    let world_kinds = std::mem::take(&mut agg.world_kinds);
    let mut first_by_sig: BTreeMap<String, (usize, Violation)> = BTreeMap::new();
    for (idx, r) in agg.violating.iter().enumerate() {
        for v in r.ev.violations.iter() {
            first_by_sig.entry(v.signature.clone()).or_insert((idx, v.clone()));
        }
    }
    let results = &agg.violating;

    // minimise and write a replay for every distinct new signature (lowest run index first)
    let mut violations: Vec<(ReplayFile, bool)> = vec![];
    let mut known_hits: BTreeMap<String, u64> = BTreeMap::new();
    let mut new_sigs: Vec<(String, usize, Violation)> = vec![];
    for (sig, n) in sig_counts.iter() {
        if open_sigs.contains(sig) {
            known_hits.insert(sig.clone(), *n);
        }
    }
    for (sig, (idx, v)) in first_by_sig.iter() {
        if !open_sigs.contains(sig) {
            new_sigs.push((sig.clone(), *idx, v.clone()));
        }
    }
    if let Ok(f) = std::env::var("PERPSIM_ONLY_SIG") {
        new_sigs.retain(|x| x.0.contains(&f));
    }
    new_sigs.sort_by_key(|x| x.1);
    // the signatures are minimised independently of one another, one thread each; the order of the output is fixed
    let minimised: Vec<(ReplayFile, bool)> = std::thread::scope(|sc| {
        let handles: Vec<_> = new_sigs
            .iter()
            .take(6)
            .map(|(sig, idx, v)| {
                let rr = &results[*idx];
                sc.spawn(move || {
                    let run = &rr.run;
                    let cfg0 = rr.world.clone().unwrap();
                    let min_steps = minimise(prop, &cfg0, &rr.steps, sig, min_budget);
                    let cfg = simplify_world(prop, &cfg0, &min_steps, sig);
                    let min_steps = if cfg != cfg0 { minimise(prop, &cfg, &min_steps, sig, min_budget / 3) } else { min_steps };
                    let check = run_history(prop, &cfg, &min_steps, false);
                    let (final_steps, viol) = match check.ev.violations.iter().find(|x| x.signature == *sig) {
                        Some(x) => (min_steps, x.clone()),
                        None => (rr.steps.clone(), v.clone()),
                    };
                    let cfg = if final_steps.len() == rr.steps.len() && cfg != cfg0 && !has_sig(&run_history(prop, &cfg, &final_steps, false), sig) { cfg0 } else { cfg };
                    (
                        ReplayFile { format: 1, property: prop.to_string(), signature: sig.clone(), seed, run: *run, world: cfg, steps: final_steps, violation: Some(viol), note: String::new() },
                        true,
                    )
                })
            })
            .collect();
        handles.into_iter().map(|h| h.join().expect("minimiser thread")).collect()
    });
    violations.extend(minimised);
    let wall = t0.elapsed().as_secs_f64();
    let fault_kinds: BTreeMap<String, u64> = counters.iter().filter(|(k, _)| k.starts_with("fault_fired")).map(|(k, v)| (k.clone(), *v)).collect();
    let evidence = json!({
        "property_id": prop,
        "tier": tier,
        "seed": seed,
        "level": level_of(prop),
        "coverage": {
            "evaluations": evaluations,
            "distinct_nontrivial": keys.len(),
            "rule": rule_of(prop),
            "samples": samples,
            "runs": done,
            "runs_requested": runs,
            "truncated_by_wall_cap": truncated,
            "runs_per_hour": if wall > 0.0 { (done as f64 / wall * 3600.0) as u64 } else { 0 },
            "steps": steps,
            "transactions": {"ok": ok, "err": err, "panicked": pan},
            "simulated_seconds": sim_s,
            "simulated_blocks": blocks,
            "forks": forks,
            "faults_fired": fault_kinds,
            "reach_counters": counters,
            "states_reached": states.len(),
            "states_measure": "distinct hashes of (per-position vAMM/side/size-byte-length, paused, per-vAMM open/registered/liquidated-this-block, prepaid bad debt zero/non-zero)",
            "interleavings": trigrams.len(),
            "interleavings_measure": "distinct (op kind, op kind, op kind, same block?, same block?, last succeeded?) trigrams",
            "world_kinds": world_kinds,
            "components": {"real": ["margined_engine", "margined_vamm", "margined_insurance_fund", "margined_fee_pool", "margined_pricefeed", "mock_pricefeed", "cw20-base"], "stub": ["cw-multi-test router/wasm keeper/bank keeper/storage", "MockApi", "clock (BlockInfo)", "all clients"]},
            "known_findings_matched": known_hits,
            "violation_signatures": sig_counts,
            "workers": workers,
            "exhaustive": false
        },
        "assumptions": [
            "cw-multi-test 0.13.4 models dispatch order, reply semantics and cache/commit of a wasmd host",
            "cw20-base 0.13.4 is the collateral token",
            "reference formulas of DESIGN.md Appendix A",
            "a clean batch is evidence over the sampled histories, not a proof"
        ],
        "wall_s": wall,
        "violations": violations.len()
    });
    BatchOut { runs: done, evidence, violations, harness_errors, known_hits }
}
