//! Seeded generation of worlds and of the next step of a history (swarm style: everything varies per run).

use crate::obs::Pos;
use crate::prng::Rng;
use crate::refmodel::*;
use crate::run::Runner;
use crate::types::*;
use crate::world::World;

#[derive(Clone, Debug)]
pub struct Profile {
    /// a very long history of one kind, for whatever is kept in a bounded or ever-growing list ("funding": hundreds of
    /// settlements on one vAMM; "feed": hundreds of rounds under one key; "blocks": more than a thousand trading blocks)
    pub marathon: Option<&'static str>,
    /// many consecutive busy blocks (C18: more snapshots inside one TWAP window than any short history has)
    pub long_busy: bool,
    pub prop: String,
    pub min_steps: usize,
    pub max_steps: usize,
    /// weights: trade, keeper, oracle, whale, admin, env, adversary
    pub w: [u32; 7],
    pub p_clock: (u64, u64),
    pub p_fault: (u64, u64),
    pub p_same_block_burst: (u64, u64),
}

pub fn profile_for(prop: &str) -> Profile {
    let mut p = Profile {
        marathon: None,
        long_busy: false,
        prop: prop.to_string(),
        min_steps: 30,
        max_steps: 90,
        w: [50, 14, 6, 10, 6, 3, 2],
        p_clock: (55, 100),
        p_fault: (6, 100),
        p_same_block_burst: (10, 100),
    };
    match prop {
        "C01" => {
            p.w = [60, 10, 2, 14, 4, 1, 0];
        }
        "C02" => {
            p.w = [55, 18, 5, 12, 5, 3, 2];
        }
        "C10" => {
            p.w = [52, 18, 5, 12, 5, 3, 5];
        }
        "C03" => {
            p.w = [50, 16, 5, 10, 8, 6, 3];
        }
        "C04" | "C05" | "C12" => {
            p.w = [58, 10, 8, 14, 5, 3, 0];
            p.p_fault = (2, 100);
        }
        "C06" | "C07" => {
            p.w = [36, 24, 10, 22, 5, 2, 0];
            p.p_fault = (0, 100);
            p.p_clock = (70, 100);
        }
        "C08" => {
            p.w = [54, 18, 5, 12, 5, 6, 0];
            p.p_fault = (10, 100);
        }
        "C09" => {
            p.w = [30, 8, 6, 6, 40, 2, 8];
            p.min_steps = 20;
            p.max_steps = 50;
            p.p_fault = (0, 100);
        }
        "C11" => {
            p.w = [42, 28, 12, 10, 4, 2, 0];
            p.p_clock = (75, 100);
            p.p_fault = (2, 100);
        }
        "C13" => {
            p.w = [62, 14, 6, 12, 5, 0, 0];
            p.p_fault = (0, 100);
        }
        "C14" => {
            p.w = [34, 12, 4, 8, 38, 2, 2];
            p.min_steps = 20;
            p.max_steps = 60;
            p.p_fault = (0, 100);
        }
        "C15" => {
            p.w = [62, 8, 2, 18, 6, 1, 0];
            p.p_clock = (35, 100);
            p.p_fault = (0, 100);
            p.p_same_block_burst = (40, 100);
        }
        "C16" => {
            p.w = [44, 28, 6, 16, 4, 1, 0];
            p.p_clock = (35, 100);
            p.p_fault = (0, 100);
            p.p_same_block_burst = (45, 100);
        }
        "C17" => {
            p.w = [62, 14, 2, 14, 6, 2, 0];
            p.p_fault = (0, 100);
        }
        "C18" => {
            p.w = [60, 6, 14, 14, 4, 0, 0];
            p.p_clock = (70, 100);
            p.p_fault = (0, 100);
        }
        "C20" => {
            p.w = [40, 6, 3, 8, 40, 1, 2];
            p.p_fault = (0, 100);
        }
        _ => {}
    }
    if crate::THOROUGH.load(std::sync::atomic::Ordering::Relaxed) {
        // the thorough tier also explores longer histories
        p.max_steps *= 2;
    }
    p
}

fn ratio_choice(rng: &mut Rng, d: U, opts: &[(u32, u32)]) -> U {
    // (numerator per 10_000, weight)
    let w: Vec<u32> = opts.iter().map(|x| x.1).collect();
    let i = rng.weighted(&w);
    let n = opts[i].0 as u128;
    if n == 1 {
        return 1; // one ulp
    }
    d / 10_000 * n
}

pub fn gen_world(rng: &mut Rng, prop: &str) -> WorldCfg {
    let kind = match prop {
        "C01" | "C17" => {
            if rng.chance(1, 2) {
                WorldKind::VammDirect
            } else {
                WorldKind::Standard
            }
        }
        "C15" => {
            if rng.chance(3, 10) {
                WorldKind::VammDirect
            } else {
                WorldKind::Standard
            }
        }
        "C18" => match rng.below(10) {
            0..=3 => WorldKind::VammDirect,
            4..=6 => WorldKind::FeedOnly,
            _ => WorldKind::Standard,
        },
        _ => WorldKind::Standard,
    };
    let coll = if prop == "C13" {
        Coll::Cw20 { decimals: 6 }
    } else {
        match rng.below(10) {
            0..=3 => Coll::Native,
            4..=6 => Coll::Cw20 { decimals: 6 },
            7 => Coll::Cw20 { decimals: 8 },
            _ => Coll::Cw20 { decimals: 9 },
        }
    };
    let dec = coll.decimals();
    let d: U = 10u128.pow(dec as u32);
    let oracle = match prop {
        "C09" => OracleKind::Real,
        "C07" | "C18" | "C11" => {
            if rng.chance(1, 2) {
                OracleKind::Real
            } else {
                OracleKind::Mock
            }
        }
        _ => {
            if rng.chance(1, 4) {
                OracleKind::Real
            } else {
                OracleKind::Mock
            }
        }
    };
    let oracle = if kind == WorldKind::FeedOnly { OracleKind::Real } else { oracle };
    let nv = match prop {
        "C14" => rng.range(2, 4),
        "C09" | "C20" => rng.range(1, 2),
        _ => *rng.pick(&[1u64, 1, 1, 2, 2, 3]),
    } as usize;
    let initial = ratio_choice(rng, d, &[(200, 2), (500, 5), (1000, 3), (5000, 1), (10000, 1), (0, 1)]);
    let maintenance = if rng.chance(1, 2) {
        initial
    } else {
        match rng.below(3) {
            0 => initial / 2,
            1 => initial * 4 / 5,
            _ => rng.range128(0, initial),
        }
    };
    let liq_fee = ratio_choice(rng, d, &[(0, 1), (125, 4), (500, 4), (1000, 2)]);
    let want_fluct = matches!(prop, "C15") || rng.chance(if matches!(prop, "C04" | "C11" | "C12" | "C02") { 5 } else { 3 }, 10);
    let partial = if prop == "C17" {
        // includes ratios that are not one over a whole number
        ratio_choice(rng, d, &[(2500, 2), (5000, 2), (4000, 2), (7500, 2), (3000, 1), (6000, 1), (0, 1), (10000, 1)])
    } else if prop == "C15" || want_fluct {
        ratio_choice(rng, d, &[(2500, 4), (5000, 2), (9900, 1), (10000, 1), (0, 1)])
    } else {
        ratio_choice(rng, d, &[(0, 4), (2500, 3), (5000, 1), (9900, 1), (10000, 1)])
    };
    let mut vamms = vec![];
    let mut qmax: U = 0;
    for i in 0..nv {
        // price scale and depth
        let base_units: U = *rng.pick(&[1u128, 10, 100, 100, 10_000, 10_000, 1_000_000, 1_000_000_000]);
        let price_milli: U = *rng.pick(&[1u128, 100, 1000, 1000, 10_000, 10_000, 1_000_000]);
        let mut b = base_units * d;
        let mut q = (base_units * price_milli * d / 1000).max(d);
        if rng.chance(1, 2) {
            b += rng.below128(d);
            q += rng.below128(d);
        }
        let spot = mul_div(q, d, b).unwrap_or(d);
        // (not only ratios of the form 1/n: 0.37 %, 7.77 %, 43.21 %, and limits such as 7.8 %, 35.9 %, 56.24 %)
        let toll = ratio_choice(rng, d, &[(0, 10), (1, 1), (10, 2), (100, 3), (1000, 3), (10000, 1), (37, 1), (777, 1), (4321, 1)]);
        let spread = ratio_choice(rng, d, &[(0, 10), (1, 1), (10, 2), (100, 3), (1000, 3), (10000, 1), (37, 1), (777, 1), (4321, 1)]);
        let fluct = if want_fluct {
            ratio_choice(rng, d, &[(50, 2), (100, 3), (500, 4), (2000, 2), (10000, 1), (780, 1), (3590, 1), (5624, 1), (137, 1)])
        } else {
            0
        };
        let caps = prop == "C20" || rng.chance(1, 10);
        let (oi_cap, holding_cap) = if caps {
            (
                if rng.chance(2, 3) { q / *rng.pick(&[2u128, 10, 50]) } else { 0 },
                if rng.chance(2, 3) { b / *rng.pick(&[4u128, 20, 100]) } else { 0 },
            )
        } else {
            (0, 0)
        };
        // the oracle starts near the vAMM price (sometimes away from it, so premiums have both signs)
        let oracle_price = match rng.below(6) {
            0 => spot * 95 / 100,
            1 => spot * 105 / 100,
            2 => spot * 85 / 100,
            3 => spot * 115 / 100,
            _ => spot,
        }
        .max(1);
        let registered = if prop == "C14" { i < 3 && !rng.chance(1, 6) } else { true };
        let open = true;
        let vdec = if prop == "C20" && i > 0 && rng.chance(1, 2) { if dec == 6 { 8 } else { 6 } } else { dec };
        let vd: U = 10u128.pow(vdec as u32);
        let (toll, spread, fluct) = if vdec != dec { (0, 0, 0) } else { (toll, spread, fluct) };
        if vdec != dec {
            // reserves must still be at least one whole unit in the vAMM's own decimals
            b = b.max(vd);
            q = q.max(vd);
        }
        qmax = qmax.max(q);
        vamms.push(VammCfg {
            q,
            b,
            // (the funding profile also uses periods that are an odd number of seconds, down to one second)
            funding_period: if prop == "C11" { *rng.pick(&[1800u64, 3600, 3600, 86400, 3601, 1801, 7, 1]) } else { *rng.pick(&[1800u64, 3600, 3600, 86400]) },
            toll,
            spread,
            fluct,
            oi_cap,
            holding_cap,
            registered,
            open,
            decimals: vdec,
            oracle_price,
            twap_interval: if rng.chance(1, 3) { Some(*rng.pick(&[60u64, 900, 3600, 86400, 604800])) } else { None },
            init_if: !(prop == "C09" && rng.chance(3, 10)),
        });
    }
    let trader_balance = (qmax / 2).max(5000 * d);
    let if_balance = match prop {
        // mostly ample (the probe tops the fund up in its fork anyway); sometimes empty or nearly so, so that the
        // withdrawals of the main history (funding, shortfalls) meet a fund that cannot pay
        "C07" => match rng.below(5) {
            0 => 0,
            1 => d,
            _ => trader_balance * 50,
        },
        _ => match rng.below(10) {
            0 => 0,
            1 => d,
            _ => trader_balance * 10,
        },
    };
    let distinct = rng.chance(1, 2) || prop == "C09";
    let roles = if distinct {
        Roles {
            owner: "owner".into(),
            pauser: "pauser".into(),
            if_owner: "ifowner".into(),
            fp_owner: "fpowner".into(),
            pf_owner: "pfowner".into(),
            vamm_owner: "vammowner".into(),
        }
    } else {
        Roles {
            owner: "owner".into(),
            pauser: "owner".into(),
            if_owner: "owner".into(),
            fp_owner: "owner".into(),
            pf_owner: "owner".into(),
            vamm_owner: "owner".into(),
        }
    };
    let n_vamms_hint = vamms.len();
    let spare_ok = kind == WorldKind::Standard;
    let prefix_vamms = kind == WorldKind::Standard && n_vamms_hint >= 2 && matches!(prop, "C10" | "C03" | "C16" | "C02") && rng.chance(1, 4);
    WorldCfg {
        kind,
        coll: coll.clone(),
        oracle,
        engine: EngineCfg { initial, maintenance, liq_fee, partial },
        vamms,
        n_traders: rng.range(2, 4) as usize,
        trader_balance,
        allowance: if !coll.is_native() && rng.chance(1, 8) { Some(trader_balance / 3) } else { None },
        if_balance,
        roles,
        start_time: 1_000_000_000 + rng.below(3600 * 24),
        prefix_vamms,
        roles_trade: spare_ok && matches!(prop, "C05" | "C14" | "C16" | "C20") && rng.chance(1, 3),
        spare_if: if spare_ok && matches!(prop, "C03" | "C04" | "C06" | "C07" | "C11" | "C12" | "C14") && rng.chance(1, 5) {
            Some(match rng.below(3) {
                0 => 0,
                1 => d,
                _ => trader_balance * 10,
            })
        } else {
            None
        },
    }
}

const DTS: [u64; 16] = [0, 0, 1, 5, 15, 15, 60, 899, 900, 901, 1800, 3599, 3600, 3601, 86400, 604800];

pub struct Gen {
    pub profile: Profile,
    pub burst_left: u32,
    pub plan: Vec<Step>,
}

impl Gen {
    pub fn new(profile: Profile) -> Gen {
        Gen { profile, burst_left: 0, plan: vec![] }
    }

    fn pick_vamm(&self, r: &Runner, rng: &mut Rng) -> usize {
        rng.below(r.w.addrs.vamms.len().max(1) as u64) as usize
    }

    fn pick_trader(&self, r: &Runner, rng: &mut Rng) -> String {
        if rng.chance(1, 12) {
            return "liquidator".into();
        }
        if r.w.cfg.roles_trade && rng.chance(1, 6) {
            // whoever holds a role right now trades like anybody else
            let roles = current_roles(r);
            let mut c: Vec<String> = vec![roles.engine_owner.clone(), roles.pauser.clone(), roles.if_owner.clone(), roles.fp_owner.clone(), roles.pf_owner.clone()];
            c.extend(roles.vamm_owner.iter().cloned());
            c.retain(|a| !a.is_empty() && !a.starts_with("contract"));
            if !c.is_empty() {
                return rng.pick(&c).clone();
            }
        }
        let t = World::trader(rng.below(r.w.cfg.n_traders as u64) as usize);
        if r.w.cfg.prefix_vamms && rng.chance(1, 3) {
            // the account whose address completes the shorter vAMM address to the longer one's plus this trader's
            return format!("0{}", t);
        }
        t
    }

    fn clock(&mut self, rng: &mut Rng) -> Option<(u64, u64)> {
        if self.burst_left > 0 && !self.profile.long_busy {
            self.burst_left -= 1;
            return None;
        }
        if rng.chance(self.profile.p_same_block_burst.0, self.profile.p_same_block_burst.1) {
            self.burst_left = rng.range(1, 6) as u32;
        }
        match self.profile.marathon {
            // a day per step: every settlement is due again
            Some("funding") => return Some((1, 86_400)),
            // one trading block after the other, now and then two trades in one block
            Some("blocks") => return if rng.chance(1, 4) { None } else { Some((1, *rng.pick(&[1u64, 5, 15, 60]))) },
            // one block per step, a second or a fraction of a second apart
            Some("seconds") => return Some((1, *rng.pick(&[0u64, 0, 1]))),
            _ => {}
        }
        if self.profile.long_busy {
            if self.profile.prop != "C18" {
                // a few seconds per block: hundreds of blocks inside a 15-minute window
                return Some((1, *rng.pick(&[0u64, 1, 1, 2, 5, 5, 9])));
            }
            return Some((1, *rng.pick(&[0u64, 1, 5, 15, 15, 60])));
        }
        if rng.chance(self.profile.p_clock.0, self.profile.p_clock.1) {
            let dt = *rng.pick(&DTS);
            let dh = if rng.chance(1, 8) { rng.range(2, 20) } else { 1 };
            Some((dh, dt))
        } else {
            None
        }
    }

    /// leverage choices around the two boundaries
    fn leverage(&self, r: &Runner, rng: &mut Rng) -> U {
        let d = r.w.d;
        let init = r.obs.eng.as_ref().map(|e| e.initial).unwrap_or(d / 20);
        let maxlev = if init == 0 { d * 1000 } else { d * d / init };
        match rng.below(16) {
            0 => d,
            1 => d - 1,
            2 => maxlev,
            3 => maxlev + 1,
            4 => maxlev.saturating_sub(1).max(d),
            5 => rng.range128(d, maxlev.max(d)),
            6 | 7 => (2 * d).min(maxlev.max(d)),
            8 | 9 => (5 * d).min(maxlev.max(d)),
            10 => d + rng.below128(d),
            _ => maxlev.max(d).min(10 * d),
        }
    }

    fn gen_open(&self, r: &Runner, rng: &mut Rng, actor: &str, v: usize) -> Op {
        let d = r.w.d;
        let vo = &r.obs.vamms[v];
        let lev = self.leverage(r, rng);
        let pos: Option<&Pos> = r.obs.position(v, actor).filter(|p| p.size != 0);
        let mut side = if rng.chance(1, 2) { Side::Buy } else { Side::Sell };
        // notional as a fraction of the quote reserve, log-uniform
        let mut n: U = match rng.below(10) {
            0 => rng.range128(1, 2000),
            1 | 2 => rng.log_range(d / 100 + 1, vo.q / 1000 + d),
            3 => vo.q / *rng.pick(&[2u128, 3, 5]),
            _ => rng.log_range(vo.q / 100_000 + 1, vo.q / 8 + 2),
        };
        if rng.chance(1, 14) && vo.b > 0 {
            // dust: what one, two or three raw base units cost at the current price (and a little around it)
            n = mul_div(vo.q, rng.range128(1, 3), vo.b).unwrap_or(1).saturating_add(rng.range128(0, 4)).saturating_sub(rng.range128(0, 2)).max(1);
        }
        if let Some(p) = pos {
            if p.size.unsigned_abs() <= 4 && rng.chance(1, 2) {
                // a dust position reduced by a raw-unit order (the vAMM's rounding may charge more base than it holds)
                let opp = if p.dir == Dir::Add { Side::Sell } else { Side::Buy };
                let n = rng.range128(1, 400);
                let margin = mul_div(n, d, lev.max(1)).unwrap_or(n).max(1);
                return Op::Open { vamm: v, side: opp, margin, leverage: lev, limit: 0 };
            }
            // act on the existing position: increase, reduce, exact reverse, dust reverse, big reverse
            let cur = curve_output(p.dir, p.size.unsigned_abs(), vo.q, vo.b, vo.decimals.max(1)).unwrap_or(p.notional);
            let opp = if p.dir == Dir::Add { Side::Sell } else { Side::Buy };
            match rng.below(12) {
                0 | 1 => {
                    side = opp.flip();
                }
                2 | 3 => {
                    side = opp;
                    n = cur / *rng.pick(&[2u128, 3, 10]);
                }
                4 => {
                    side = opp;
                    n = cur;
                }
                5 => {
                    side = opp;
                    n = cur + rng.range128(1, (lev / d).max(2));
                }
                6 | 7 => {
                    side = opp;
                    n = cur.saturating_mul(*rng.pick(&[2u128, 3])).min(vo.q / 3 + cur + 1);
                }
                8 => {
                    side = opp;
                    n = cur.saturating_sub(rng.range128(1, 3)).max(1);
                }
                _ => {}
            }
        }
        n = n.max(1);
        // margin such that floor(margin*lev/D) is n or just around it
        let mut margin = mul_div(n, d, lev.max(1)).unwrap_or(n).max(1);
        if rng.chance(1, 2) {
            margin += 1;
        }
        // slippage limits on both sides of and exactly at the quoted amount (mostly none)
        let p_limit = if self.profile.prop == "C17" { 60 } else { 8 };
        let limit = if rng.chance(p_limit, 100) {
            let n_eff = mul_div(margin, lev, d).unwrap_or(0);
            match curve_input(side.dir(), n_eff, vo.q, vo.b, vo.decimals.max(1)) {
                Some(qv) => match rng.below(6) {
                    0 => qv,
                    1 => qv + 1,
                    2 => qv.saturating_sub(1).max(1),
                    3 => qv.saturating_mul(2),
                    4 => (qv / 2).max(1),
                    _ => qv,
                },
                None => 0,
            }
        } else {
            0
        };
        Op::Open { vamm: v, side, margin, leverage: lev, limit }
    }

    fn gen_trade(&mut self, r: &mut Runner, rng: &mut Rng) -> Step {
        let v = self.pick_vamm(r, rng);
        let actor = self.pick_trader(r, rng);
        let pos = r.obs.position(v, &actor).cloned().filter(|p| p.size != 0);
        let d = r.w.d;
        let p_limit = if self.profile.prop == "C17" { 60 } else { 8 };
        let close_limit = match pos.as_ref() {
            Some(p) if rng.chance(p_limit, 100) => {
                let vo = &r.obs.vamms[v];
                match curve_output(p.dir, p.size.unsigned_abs(), vo.q, vo.b, vo.decimals.max(1)) {
                    Some(qv) => match rng.below(5) {
                        0 => qv,
                        1 => qv + 1,
                        2 => qv.saturating_sub(1).max(1),
                        3 => qv.saturating_mul(2),
                        _ => (qv / 2).max(1),
                    },
                    None => 0,
                }
            }
            _ => 0,
        };
        let op = match (pos.as_ref(), rng.below(20)) {
            (Some(_), 0..=4) => Op::Close { vamm: v, limit: close_limit },
            (Some(p), 5 | 6) => {
                let amt = match rng.below(4) {
                    0 => rng.range128(1, 1000),
                    1 => p.margin / 2 + 1,
                    _ => rng.log_range(d / 100 + 1, p.margin.max(d)),
                };
                Op::Deposit { vamm: v, amount: amt }
            }
            (Some(p), 7..=9) => {
                let fc = r
                    .w
                    .q(&r.w.addrs.engine, serde_json::json!({"free_collateral": {"vamm": r.w.addrs.vamms[v], "trader": actor}}))
                    .map(|x| crate::obs::pi(&x))
                    .unwrap_or(0);
                let amt = match rng.below(6) {
                    0 => rng.range128(1, 1000),
                    1 if fc > 0 => fc as u128,
                    2 if fc > 0 => fc as u128 + 1,
                    3 if fc > 1 => rng.range128(1, fc as u128),
                    4 => p.margin,
                    _ => p.margin / 3 + 1,
                };
                Op::Withdraw { vamm: v, amount: amt.max(1) }
            }
            (None, 0) => Op::Close { vamm: v, limit: 0 },
            (None, 1) => Op::Deposit { vamm: v, amount: rng.range128(1, d * 10) },
            (None, 2) => Op::Withdraw { vamm: v, amount: rng.range128(1, d * 10) },
            _ => self.gen_open(r, rng, &actor, v),
        };
        // zero arguments now and then (every one of them has to be refused)
        let op = if rng.chance(1, 60) {
            match op {
                Op::Open { vamm, side, leverage, limit, .. } if rng.chance(1, 2) => Op::Open { vamm, side, margin: 0, leverage, limit },
                Op::Open { vamm, side, margin, limit, .. } => Op::Open { vamm, side, margin, leverage: 0, limit },
                Op::Deposit { vamm, .. } => Op::Deposit { vamm, amount: 0 },
                Op::Withdraw { vamm, .. } => Op::Withdraw { vamm, amount: 0 },
                o => o,
            }
        } else {
            op
        };
        let mut st = Step::new(&actor, op);
        st.funds = native_funds(r, &actor, &st.op);
        if r.w.cfg.coll.is_native() && matches!(st.op, Op::Close { .. }) && rng.chance(1, 5) {
            // something other than the closing fees: nothing, one unit less, one unit more, twice as much
            st.funds = match rng.below(4) {
                0 => 0,
                1 => st.funds.saturating_sub(1),
                2 => st.funds + 1,
                _ => st.funds * 2,
            };
        }
        if r.w.cfg.coll.is_native() && matches!(st.op, Op::Deposit { .. }) && rng.chance(1, 5) {
            // attach something other than the declared amount
            st.funds = match rng.below(3) {
                0 => st.funds + 1,
                1 => st.funds.saturating_sub(1),
                _ => st.funds * 2,
            };
        }
        st
    }

    /// solved tactic: an under-margined trader deposits exactly enough to sit at maintenance (+0 / +1 ulp / -1 ulp),
    /// then somebody tries to liquidate them
    fn gen_boundary(&mut self, r: &mut Runner, rng: &mut Rng) -> Option<Step> {
        let eng = r.obs.eng.clone()?;
        let d = r.w.d;
        let holders: Vec<(usize, String)> = r.obs.pos.iter().filter(|(_, p)| p.size != 0).map(|(k, _)| k.clone()).collect();
        if holders.is_empty() {
            return None;
        }
        let (v, t) = rng.pick(&holders).clone();
        let pos = r.obs.position(v, &t)?.clone();
        let pp = crate::oracles::engine_refs::pnl_pair_now(&r.w, v, &t)?;
        let (_, n, pl) = pp.binding();
        let f = funding_owed(r.obs.vamms[v].cum, pos.checkpoint, pos.size, d)?;
        let target_ratio = eng.maintenance as i128 + *rng.pick(&[0i128, 1, -1, 0, 1]);
        // smallest equity with trunc(E*D/n) == target
        let e_needed = {
            let num = target_ratio.checked_mul(n as i128)?;
            let mut e = num / d as i128;
            while smul_div(e, d as i128, n as i128)? < target_ratio {
                e += 1;
            }
            e
        };
        let cur_e = pos.margin as i128 + pl - f;
        let delta = e_needed - cur_e;
        if delta <= 0 || delta as u128 > r.obs.bal(&t) {
            return None;
        }
        let liquidator = (*rng.pick(&["liquidator", "stranger", "keeper"])).to_string();
        self.plan.push(Step::new(&liquidator, Op::Liquidate { vamm: v, trader: t.clone(), limit: 0 }));
        let mut st = Step::new(&t, Op::Deposit { vamm: v, amount: delta as u128 });
        st.funds = if r.w.cfg.coll.is_native() { delta as u128 } else { 0 };
        Some(st)
    }

    /// solved tactic: push the oracle far from the vAMM price, let a funding period pass, settle, then have a position
    /// holder act on their position (funding owed of the order of the margin)
    fn gen_funding_drain(&mut self, r: &mut Runner, rng: &mut Rng) -> Option<Step> {
        let holders: Vec<(usize, String)> = r.obs.pos.iter().filter(|(_, p)| p.size != 0).map(|(k, _)| k.clone()).collect();
        if holders.is_empty() {
            return None;
        }
        let (v, t) = rng.pick(&holders).clone();
        let pos = r.obs.position(v, &t)?.clone();
        let vo = r.obs.vamms[v].clone();
        // funding owed per settlement ~ (twap - oracle) * period/day * size: aim at 2%..60% of the notional
        let pct: u128 = *rng.pick(&[2u128, 5, 10, 20, 40, 60]);
        let day_frac_num = vo.funding_period.max(1) as u128;
        let gap = mul_div(vo.spot, pct * 86400, 100 * day_frac_num).unwrap_or(vo.spot / 2).min(vo.spot.saturating_mul(5));
        // longs pay when the vAMM trades above the oracle
        let against_holder = rng.chance(3, 4);
        let oracle_below = (pos.size > 0) == against_holder;
        let price = if oracle_below { vo.spot.saturating_sub(gap).max(1) } else { vo.spot.saturating_add(gap) };
        let now = r.w.now();
        let act = match rng.below(4) {
            0 => Op::Withdraw { vamm: v, amount: (pos.margin / 4).max(1) },
            _ => Op::Close { vamm: v, limit: 0 },
        };
        self.plan.push(Step::new(&t, act));
        let mut pf = Step::new("keeper", Op::PayFunding { vamm: v });
        pf.clock = Some((1, vo.funding_period.max(60) + *rng.pick(&[0u64, 1, 60])));
        self.plan.push(pf);
        let owner = r.obs.pf_owner.clone();
        Some(Step::new(&owner, Op::AppendPrice { vamm: v, price, timestamp: now }))
    }

    fn gen_keeper(&mut self, r: &mut Runner, rng: &mut Rng) -> Step {
        // (not in a seconds marathon: the tactic lets a funding period pass, which empties the 15-minute window)
        if matches!(self.profile.prop.as_str(), "C04" | "C11" | "C05" | "C03") && self.profile.marathon != Some("seconds") && rng.chance(1, 5) {
            if let Some(st) = self.gen_funding_drain(r, rng) {
                return st;
            }
        }
        let p_boundary = if self.profile.marathon == Some("seconds") { 2 } else { 6 };
        if matches!(self.profile.prop.as_str(), "C06" | "C07" | "C05" | "C16") && rng.chance(1, p_boundary) {
            if let Some(st) = self.gen_boundary(r, rng) {
                return st;
            }
        }
        let v = self.pick_vamm(r, rng);
        if rng.chance(2, 5) || (self.profile.marathon == Some("funding") && rng.chance(9, 10)) {
            let actor = *rng.pick(&["keeper", "stranger", "liquidator", "trader0"]);
            return Step::new(actor, Op::PayFunding { vamm: v });
        }
        // liquidation attempt: prefer traders that hold a position
        let holders: Vec<String> = r.obs.pos.iter().filter(|((vv, _), p)| *vv == v && p.size != 0).map(|((_, t), _)| t.clone()).collect();
        let trader = if !holders.is_empty() && rng.chance(9, 10) { rng.pick(&holders).clone() } else { self.pick_trader(r, rng) };
        let actor: String = match rng.below(10) {
            0 => trader.clone(),
            1 => "stranger".into(),
            2 => World::trader(rng.below(r.w.cfg.n_traders as u64) as usize),
            _ => "liquidator".into(),
        };
        let mut limit = 0;
        if self.profile.prop == "C17" && rng.chance(1, 2) {
            if let Some(p) = r.obs.position(v, &trader).filter(|p| p.size != 0) {
                let vo = &r.obs.vamms[v];
                if let Some(qv) = curve_output(p.dir, p.size.unsigned_abs(), vo.q, vo.b, vo.decimals.max(1)) {
                    limit = match rng.below(5) {
                        0 => qv,
                        1 => qv + 1,
                        2 => qv.saturating_sub(1).max(1),
                        3 => qv.saturating_mul(2),
                        _ => (qv / 2).max(1),
                    };
                }
                // a partial liquidation trades the fraction `partial` of the position under the caller's limit scaled by the
                // same fraction: aim the whole-position limit around (quote of the partial trade) / fraction
                let pr = r.obs.eng.as_ref().map(|e| e.partial).unwrap_or(0);
                if pr > 0 && pr < r.w.d && rng.chance(1, 2) {
                    let part = mul_div(p.size.unsigned_abs(), pr, r.w.d).unwrap_or(0);
                    if let Some(qp) = curve_output(p.dir, part, vo.q, vo.b, vo.decimals.max(1)).filter(|_| part > 0) {
                        if let Some(whole) = mul_div(qp, r.w.d, pr) {
                            limit = match rng.below(7) {
                                0 => whole,
                                1 => whole + 2,
                                2 => whole.saturating_sub(2).max(1),
                                3 => mul_div(whole, 8, 10).unwrap_or(whole).max(1),
                                4 => mul_div(whole, 9, 10).unwrap_or(whole).max(1),
                                5 => mul_div(whole, 11, 10).unwrap_or(whole),
                                _ => mul_div(whole, 125, 100).unwrap_or(whole),
                            };
                        }
                    }
                }
            }
        }
        if self.profile.prop == "C17" && rng.chance(1, 12) {
            // a limit that cannot bind on the paying side (and can never be met on the receiving side)
            limit = *rng.pick(&[U::MAX, U::MAX / 2, U::MAX / 1_000_000]);
        }
        Step::new(&actor, Op::Liquidate { vamm: v, trader, limit })
    }

    fn gen_oracle(&mut self, r: &mut Runner, rng: &mut Rng) -> Step {
        let v = self.pick_vamm(r, rng);
        let spot = r.obs.vamms[v].spot.max(1);
        let last = r.model.feed[v].last().map(|x| x.1).unwrap_or(spot).max(1);
        let base = if rng.chance(1, 2) { spot } else { last };
        let pct: i128 = *rng.pick(&[-90i128, -50, -20, -11, -10, -9, -5, -1, 0, 1, 5, 9, 10, 11, 20, 50, 100]);
        let mut price = mul_div(base.min(10u128.pow(30)), (100 + pct) as u128, 100).unwrap_or(base).max(1);
        if rng.chance(1, 50) {
            // an oracle that reports nothing useful for a while: price zero, or one raw unit
            price = if rng.chance(1, 2) { 0 } else { 1 };
        }
        let now = r.w.now();
        let last_ts = r.model.feed[v].last().map(|x| x.0).unwrap_or(0);
        let ts = match rng.below(6) {
            0 => last_ts.max(now.saturating_sub(rng.below(1000))),
            1 => last_ts,
            _ => now,
        }
        .max(last_ts)
        .min(now);
        Step::new(&r.w.cfg.roles.pf_owner.clone(), Op::AppendPrice { vamm: v, price, timestamp: ts })
    }

    /// a large trade by the whale that moves the price by a chosen percentage
    fn gen_whale(&mut self, r: &mut Runner, rng: &mut Rng) -> Step {
        let v = self.pick_vamm(r, rng);
        let vo = r.obs.vamms[v].clone();
        let d = r.w.d;
        if matches!(self.profile.prop.as_str(), "C07" | "C06") && rng.chance(1, 5) {
            if let Some(st) = self.gen_squeeze(r, rng, v) {
                return st;
            }
        }
        let pos = r.obs.position(v, "whale").cloned().filter(|p| p.size != 0);
        if pos.is_some() && rng.chance(1, 4) {
            let mut st = Step::new("whale", Op::Close { vamm: v, limit: 0 });
            st.funds = native_funds(r, "whale", &st.op);
            return st;
        }
        let up = rng.chance(1, 2);
        let x = d / 1000 * (*rng.pick(&[2u128, 5, 9, 10, 11, 20, 45, 50, 55, 100, 200, 300, 500]));
        let n = if up { quote_for_price_up(vo.q, x, d) } else { quote_for_price_down(vo.q, x.min(d * 9 / 10), d) }.unwrap_or(vo.q / 20).max(1);
        let lev = d;
        let op = Op::Open { vamm: v, side: if up { Side::Buy } else { Side::Sell }, margin: mul_div(n, d, lev).unwrap_or(n).max(1), leverage: lev, limit: 0 };
        let mut st = Step::new("whale", op);
        st.funds = native_funds(r, "whale", &st.op);
        st
    }

    /// solved tactic: a buy so large that the base reserve falls to (just below / at / above) the size of an existing
    /// short, undone - wholly or mostly - in the next block less than a second later; then somebody tries to liquidate
    /// that short. The reserve record of the squeezed block stays in every TWAP window for 15 minutes.
    fn gen_squeeze(&mut self, r: &mut Runner, rng: &mut Rng, v: usize) -> Option<Step> {
        let vo = r.obs.vamms[v].clone();
        let d = r.w.d;
        let shorts: Vec<(String, U)> = r.obs.pos.iter().filter(|((vv, t), p)| *vv == v && p.size < 0 && t != "whale").map(|((_, t), p)| (t.clone(), p.size.unsigned_abs())).collect();
        let (victim, s) = shorts.iter().max_by_key(|x| x.1).cloned()?;
        if s < 2 || vo.b <= s || s.saturating_mul(40) < vo.b {
            return None;
        }
        let target_b = match rng.below(4) {
            0 => s,
            1 => s + 1,
            2 => s - 1,
            _ => s - s / 50,
        };
        let n = mul_div(vo.q, vo.b - target_b, target_b)?.saturating_add(rng.range128(0, 3));
        if n == 0 || n > r.obs.bal("whale") / 3 {
            return None;
        }
        let open = Op::Open { vamm: v, side: Side::Buy, margin: n, leverage: d, limit: 0 };
        let back = mul_div(n, *rng.pick(&[100u128, 100, 97, 90, 75]), 100)?.max(1);
        let undo = Op::Open { vamm: v, side: Side::Sell, margin: back, leverage: d, limit: 0 };
        let live = self.profile.prop == "C07";
        let mut liq = Step::new("liquidator", Op::Liquidate { vamm: v, trader: victim, limit: 0 });
        if live {
            liq.probes.push(Probe::Liveness);
        }
        self.plan.push(liq);
        let mut st2 = Step::new("whale", undo.clone());
        st2.clock = Some((1, *rng.pick(&[0u64, 0, 1, 15])));
        st2.funds = 0; // set when it runs for native collateral (see next())
        if live {
            st2.probes.push(Probe::Liveness);
        }
        self.plan.push(st2);
        let mut st = Step::new("whale", open.clone());
        st.funds = native_funds(r, "whale", &open);
        Some(st)
    }

    fn gen_admin(&mut self, r: &mut Runner, rng: &mut Rng) -> Step {
        let d = r.w.d;
        let v = self.pick_vamm(r, rng);
        let roles = current_roles(r);
        let rat = |rng: &mut Rng| -> U {
            match rng.below(10) {
                0 => 0,
                1 => 1,
                2 => d,
                3 => d + 1,
                4 => d - 1,
                5 => d / 2,
                _ => d / 10_000 * (*rng.pick(&[50u128, 100, 125, 200, 500, 1000, 2500])),
            }
        };
        let prop = self.profile.prop.clone();
        if matches!(prop.as_str(), "C03" | "C09" | "C14" | "C12" | "C11" | "C13" | "C04" | "C02") && rng.chance(1, 8) {
            // re-point the vAMM's own insurance-fund / margin-engine fields (and back)
            let vo = &r.obs.vamms[v];
            let to_if = if vo.insurance_fund == r.w.addrs.insurance_fund { (*rng.pick(&["newowner", "stranger"])).to_string() } else { "@if".to_string() };
            let (me, ifn) = if matches!(prop.as_str(), "C03" | "C09" | "C14") && rng.chance(1, 5) {
                (Some(if vo.margin_engine == r.w.addrs.engine { "stranger".to_string() } else { "@engine".to_string() }), None)
            } else {
                (None, Some(to_if))
            };
            return Step::new(&roles.vamm_owner[v], Op::VammConfig { vamm: v, holding_cap: None, oi_cap: None, toll: None, spread: None, fluct: None, margin_engine: me, insurance_fund: ifn, pricefeed: None, twap_interval: None });
        }
        if r.w.addrs.if2.is_some() && rng.chance(1, 8) {
            // move the engine over to the other insurance fund (the vAMMs have to be registered there before anything can
            // trade again - the repair move does that - and a vAMM's own insurance-fund field keeps naming the retired fund
            // until its owner changes it)
            let other = if r.w.addrs.insurance_fund == r.w.addrs.if1 { "@if2" } else { "@if1" };
            return Step::new(&roles.engine_owner, Op::EngineConfig { owner: None, insurance_fund: Some(other.to_string()), fee_pool: None, initial: None, maintenance: None, partial: None, liq_fee: None });
        }
        if matches!(prop.as_str(), "C03" | "C12" | "C13" | "C09") && rng.chance(1, 10) {
            // re-point the engine's fee pool at a plain account and back
            let cur = r.obs.eng.as_ref().map(|e| e.fee_pool.clone()).unwrap_or_default();
            let to = if cur == r.w.addrs.fee_pool { "newowner".to_string() } else { "@fp".to_string() };
            // alone, or in one call with other fields (restating their current values)
            let e = r.obs.eng.clone().unwrap_or_default();
            let (mut ifd, mut i, mut l) = (None, None, None);
            if rng.chance(1, 2) {
                match rng.below(3) {
                    0 => ifd = Some(sym_addr(r, &e.insurance_fund)),
                    1 => i = Some(e.initial),
                    _ => l = Some(e.liq_fee),
                }
            }
            return Step::new(&roles.engine_owner, Op::EngineConfig { owner: None, insurance_fund: ifd, fee_pool: Some(to), initial: i, maintenance: None, partial: None, liq_fee: l });
        }
        let choice = rng.below(if prop == "C09" || prop == "C14" { 24 } else { 18 });
        match choice {
            0 | 1 => {
                // engine ratios: single and combined
                let (mut i, mut m, mut p, mut l) = (None, None, None, None);
                match rng.below(6) {
                    0 => i = Some(rat(rng)),
                    1 => m = Some(rat(rng)),
                    2 => {
                        i = Some(rat(rng));
                        m = Some(rat(rng));
                    }
                    3 => p = Some(rat(rng)),
                    4 => l = Some(rat(rng)),
                    _ => {
                        let a = rat(rng);
                        i = Some(a);
                        m = Some(a / 2);
                    }
                }
                Step::new(&roles.engine_owner, Op::EngineConfig { owner: None, insurance_fund: None, fee_pool: None, initial: i, maintenance: m, partial: p, liq_fee: l })
            }
            2 | 3 => {
                let (mut hc, mut oc, mut t, mut s, mut f, mut tw) = (None, None, None, None, None, None);
                let vo = &r.obs.vamms[v];
                match rng.below(8) {
                    0 => hc = Some(if rng.chance(1, 3) { 0 } else { vo.b / *rng.pick(&[4u128, 20, 100, 1000]) }),
                    1 => oc = Some(if rng.chance(1, 3) { 0 } else { vo.q / *rng.pick(&[2u128, 10, 50, 1000]) }),
                    2 => t = Some(rat(rng)),
                    3 => s = Some(rat(rng)),
                    4 => f = Some(rat(rng)),
                    5 => tw = Some(*rng.pick(&[0u64, 59, 60, 61, 900, 3600, 604800, 604801, 1_000_000])),
                    6 => {
                        t = Some(rat(rng));
                        s = Some(rat(rng));
                        f = Some(rat(rng));
                    }
                    _ => {
                        hc = Some(vo.b / 50);
                        oc = Some(vo.q / 20);
                    }
                }
                Step::new(&roles.vamm_owner[v], Op::VammConfig { vamm: v, holding_cap: hc, oi_cap: oc, toll: t, spread: s, fluct: f, margin_engine: None, insurance_fund: None, pricefeed: None, twap_interval: tw })
            }
            4 | 5 => {
                let open = !r.obs.vamms[v].open;
                let open = if rng.chance(1, 6) { !open } else { open };
                let who = if rng.chance(1, 5) { roles.if_owner.clone() } else { roles.vamm_owner[v].clone() };
                Step::new(&who, Op::SetOpen { vamm: v, open })
            }
            6 | 7 => {
                let pause = !r.model.paused;
                let pause = if rng.chance(1, 6) { !pause } else { pause };
                Step::new(&roles.pauser, Op::SetPause { pause })
            }
            8 => {
                let t = self.pick_trader(r, rng);
                if rng.chance(1, 2) {
                    Step::new(&roles.pauser, Op::AddWhitelist { address: t })
                } else {
                    Step::new(&roles.pauser, Op::RemoveWhitelist { address: t })
                }
            }
            9 | 10 => {
                let name = format!("@vamm{}", v);
                if r.obs.vamms[v].registered ^ rng.chance(1, 6) {
                    Step::new(&roles.if_owner, Op::RemoveVamm { vamm: name })
                } else {
                    Step::new(&roles.if_owner, Op::AddVamm { vamm: name })
                }
            }
            11 => Step::new(&roles.if_owner, Op::Shutdown),
            12 => {
                let amt = r.obs.bal(&r.w.addrs.fee_pool);
                let a = if amt > 0 { rng.range128(1, amt) } else { 1 };
                Step::new(&roles.fp_owner, Op::FpSend { amount: a, recipient: "stranger".into() })
            }
            13 => {
                if rng.chance(1, 2) {
                    Step::new(&roles.fp_owner, Op::FpRemoveToken { token: "@token".into() })
                } else {
                    Step::new(&roles.fp_owner, Op::FpAddToken { token: "@token".into() })
                }
            }
            14 => {
                let ts = r.w.now();
                let p = r.obs.vamms[v].spot.max(1);
                Step::new(&roles.pf_owner, Op::AppendMulti { vamm: v, prices: vec![p.to_string(), (p + 1).to_string()], timestamps: vec![ts, ts] })
            }
            15 | 16 | 17 => {
                // small config nudges that keep markets usable
                Step::new(&roles.engine_owner, Op::EngineConfig { owner: None, insurance_fund: None, fee_pool: None, initial: None, maintenance: None, partial: Some(d / 4 * rng.range128(0, 4)), liq_fee: None })
            }
            // ---- role transfers (C09 / C14 profiles only)
            18 => {
                // hand the engine over, alone or together with other fields of the same call (re-stating the current
                // values keeps the call acceptable)
                let e = r.obs.eng.clone().unwrap_or_default();
                let (mut i, mut m, mut p, mut l, mut fp) = (None, None, None, None, None);
                if rng.chance(1, 2) {
                    match rng.below(5) {
                        0 => i = Some(e.initial),
                        1 => m = Some(e.maintenance),
                        2 => p = Some(e.partial),
                        3 => l = Some(e.liq_fee),
                        _ => fp = Some(sym_addr(r, &e.fee_pool)),
                    }
                    if rng.chance(1, 3) {
                        i = Some(e.initial);
                        l = Some(e.liq_fee);
                    }
                }
                Step::new(&roles.engine_owner, Op::EngineConfig { owner: Some(next_holder(&roles.engine_owner)), insurance_fund: None, fee_pool: fp, initial: i, maintenance: m, partial: p, liq_fee: l })
            }
            19 => Step::new(&roles.pauser, Op::UpdatePauser { pauser: next_holder_or_nobody(rng, &roles.pauser) }),
            20 => Step::new(&roles.vamm_owner[v], Op::VammOwner { vamm: v, owner: next_holder_or_nobody(rng, &roles.vamm_owner[v]) }),
            21 => Step::new(&roles.if_owner, Op::IfOwner { owner: next_holder_or_nobody(rng, &roles.if_owner) }),
            22 => Step::new(&roles.fp_owner, Op::FpOwner { owner: next_holder_or_nobody(rng, &roles.fp_owner) }),
            _ => Step::new(&roles.pf_owner, Op::PfOwner { owner: next_holder_or_nobody(rng, &roles.pf_owner) }),
        }
    }

    fn gen_env(&mut self, r: &mut Runner, rng: &mut Rng) -> Step {
        let actor = self.pick_trader(r, rng);
        let bal = r.obs.bal(&actor);
        if !r.w.cfg.coll.is_native() && rng.chance(1, 2) {
            let amt = match rng.below(4) {
                0 => 0,
                1 => rng.range128(1, r.w.d),
                2 => bal / 2,
                _ => u128::MAX / 4,
            };
            Step::new(&actor, Op::SetAllowance { amount: amt })
        } else {
            let amt = match rng.below(3) {
                0 => bal,
                1 => bal.saturating_sub(rng.range128(1, r.w.d)),
                _ => bal / 2,
            }
            .max(1);
            if rng.chance(1, 3) {
                // refill from the treasury instead
                return Step::new(crate::world::TREASURY, Op::Transfer { to: actor, amount: r.w.cfg.trader_balance / 2 + 1 });
            }
            Step::new(&actor, Op::Transfer { to: crate::world::TREASURY.into(), amount: amt })
        }
    }

    /// Byzantine address arguments: the position key is derived from the concatenation of vAMM address and trader
    /// address, so an account whose name completes a truncated vAMM address aims at another trader's slot
    fn gen_collision(&mut self, r: &mut Runner, rng: &mut Rng) -> Option<Step> {
        let holders: Vec<(usize, String)> = r.obs.pos.iter().filter(|(_, p)| p.size != 0).map(|(k, _)| k.clone()).collect();
        if holders.is_empty() {
            return None;
        }
        let (v, victim) = rng.pick(&holders).clone();
        let va = r.w.addrs.vamms[v].clone();
        if va.len() < 5 {
            return None;
        }
        if rng.chance(1, 4) {
            // a sibling account: an address that differs from the victim's only by padding-like characters trades on the
            // very same vAMM with its own money (a lossy storage-key derivation would make the two share a slot)
            let sib = match rng.below(4) {
                0 => format!("{}0", victim),
                1 => format!("{}00", victim),
                2 => format!("0{}", victim),
                _ => format!("{}_", victim),
            };
            let d = r.w.d;
            let margin = rng.range128(1_000, 2_000_000);
            let side = if rng.chance(1, 2) { Side::Buy } else { Side::Sell };
            let open = Op::Open { vamm: v, side, margin, leverage: d, limit: 0 };
            let mut steps: Vec<Step> = vec![];
            let mut st = Step::new(&sib, open.clone());
            st.funds = native_funds(r, &sib, &open);
            steps.push(st);
            let dep = rng.range128(1, 5_000);
            let mut st = Step::new(&sib, Op::Deposit { vamm: v, amount: dep });
            st.funds = dep;
            steps.push(st);
            steps.push(Step::new(&sib, Op::Withdraw { vamm: v, amount: rng.range128(1, 5_000) }));
            steps.push(Step::new(&sib, Op::Close { vamm: v, limit: 0 }));
            for st in steps.into_iter().rev() {
                self.plan.push(st);
            }
            self.plan.push(Step::new(&sib, Op::SetAllowance { amount: margin.saturating_mul(40) }));
            return Some(Step::new(crate::world::TREASURY, Op::Transfer { to: sib, amount: margin.saturating_mul(20) }));
        }
        let k = rng.range(1, 2) as usize;
        let (head, tail) = va.split_at(va.len() - k);
        if head.len() < 3 {
            return None;
        }
        let actor = format!("{}{}", tail, victim);
        if rng.chance(1, 6) {
            // the liquidation entry point with both halves crafted: vamm = truncated address, trader = completion + victim
            let msg = serde_json::json!({"liquidate": {"vamm": head, "trader": actor, "quote_asset_limit": "0"}});
            return Some(Step::new("stranger", Op::RawEngine { json: msg.to_string() }));
        }
        if rng.chance(1, 6) {
            // something that is not a registered vAMM at all: another contract of the deployment or a plain account
            let bogus = r.w.resolve(*rng.pick(&["@fp", "@if", "@engine", "stranger", "@token"]));
            let msg = match rng.below(3) {
                0 => serde_json::json!({"open_position": {"vamm": bogus, "side": "buy", "margin_amount": "1000", "leverage": r.w.d.to_string(), "base_asset_limit": "0"}}),
                1 => serde_json::json!({"pay_funding": {"vamm": bogus}}),
                _ => serde_json::json!({"withdraw_margin": {"vamm": bogus, "amount": "1"}}),
            };
            return Some(Step::new(&victim, Op::RawEngine { json: msg.to_string() }));
        }
        let msg = match rng.below(5) {
            0 | 1 => serde_json::json!({"close_position": {"vamm": head, "quote_asset_limit": "0"}}),
            2 => serde_json::json!({"withdraw_margin": {"vamm": head, "amount": "1"}}),
            3 => serde_json::json!({"deposit_margin": {"vamm": head, "amount": "1"}}),
            _ => serde_json::json!({"open_position": {"vamm": head, "side": "sell", "margin_amount": "1000", "leverage": r.w.d.to_string(), "base_asset_limit": "0"}}),
        };
        if rng.chance(1, 3) {
            // a funded deposit from the crafted account (it needs collateral and an allowance to get as far as the write)
            let amt = rng.range128(1, 5_000);
            let msg = serde_json::json!({"deposit_margin": {"vamm": head, "amount": amt.to_string()}});
            let mut dep = Step::new(&actor, Op::RawEngine { json: msg.to_string() });
            dep.funds = amt;
            self.plan.push(dep);
            self.plan.push(Step::new(&actor, Op::SetAllowance { amount: amt.saturating_mul(4) }));
            return Some(Step::new(crate::world::TREASURY, Op::Transfer { to: actor, amount: amt.saturating_mul(4) }));
        }
        Some(Step::new(&actor, Op::RawEngine { json: msg.to_string() }))
    }

    fn gen_adversary(&mut self, r: &mut Runner, rng: &mut Rng) -> Step {
        if matches!(self.profile.prop.as_str(), "C10" | "C03" | "C14") && rng.chance(2, 3) {
            if let Some(st) = self.gen_collision(r, rng) {
                return st;
            }
        }
        let mut st = self.gen_admin(r, rng);
        st.actor = (*rng.pick(&["stranger", "trader0", "keeper", "@engine", "@if", "@vamm0", "newowner"])).to_string();
        st
    }

    pub fn next(&mut self, r: &mut Runner, rng: &mut Rng) -> Step {
        if let Some(mut s) = self.plan.pop() {
            if s.funds == 0 && matches!(s.op, Op::Open { .. } | Op::Close { .. }) {
                let a = s.actor.clone();
                s.funds = native_funds(r, &a, &s.op);
            }
            return s;
        }
        let clock = self.clock(rng);
        let mut cat = rng.weighted(&self.profile.w);
        // keep markets usable most of the time: undo a pause / closure / de-registration fairly soon
        if r.w.cfg.kind == WorldKind::Standard {
            let p_repair = if matches!(self.profile.prop.as_str(), "C14" | "C09") { 8 } else { 30 };
            if rng.chance(p_repair, 100) {
                if let Some(mut st) = self.repair(r) {
                    st.clock = clock;
                    self.attach_probes(r, rng, &mut st);
                    return st;
                }
            }
        }
        if cat == 6 && self.profile.w[6] == 0 {
            cat = 0;
        }
        let mut st = match r.w.cfg.kind {
            WorldKind::Standard => match cat {
                0 => self.gen_trade(r, rng),
                1 => self.gen_keeper(r, rng),
                2 => self.gen_oracle(r, rng),
                3 => self.gen_whale(r, rng),
                4 => self.gen_admin(r, rng),
                5 => self.gen_env(r, rng),
                _ => self.gen_adversary(r, rng),
            },
            WorldKind::VammDirect => self.gen_direct(r, rng, cat),
            WorldKind::FeedOnly => self.gen_feed(r, rng),
        };
        st.clock = clock;
        // native collateral: coins attached to a call that takes none (they may only end up on a conserved-set account)
        if self.profile.prop == "C03" && r.w.cfg.kind == WorldKind::Standard && r.w.cfg.coll.is_native() && st.funds == 0 && rng.chance(1, 10) {
            if matches!(st.op, Op::PayFunding { .. } | Op::Liquidate { .. } | Op::Withdraw { .. } | Op::Close { .. } | Op::SetPause { .. } | Op::EngineConfig { .. } | Op::AddWhitelist { .. } | Op::RemoveWhitelist { .. }) {
                st.funds = rng.range128(1, 5_000_000);
            }
        }
        if st.op.is_engine_user_op() && rng.chance(self.profile.p_fault.0, self.profile.p_fault.1) {
            st.fault = Some(if rng.chance(4, 5) {
                Fault::Index(rng.range(1, 8) as u32)
            } else {
                Fault::Named { component: (*rng.pick(&["vamm", "cw20", "bank", "insurance_fund", "engine"])).to_string(), nth: rng.range(1, 3) as u32 }
            });
        }
        self.attach_probes(r, rng, &mut st);
        st
    }

    fn repair(&mut self, r: &Runner) -> Option<Step> {
        let roles = current_roles(r);
        if r.model.paused {
            return Some(Step::new(&roles.pauser, Op::SetPause { pause: false }));
        }
        for (i, v) in r.obs.vamms.iter().enumerate() {
            if v.ok && v.margin_engine != r.w.addrs.engine {
                return Some(Step::new(&roles.vamm_owner[i], Op::VammConfig { vamm: i, holding_cap: None, oi_cap: None, toll: None, spread: None, fluct: None, margin_engine: Some("@engine".into()), insurance_fund: None, pricefeed: None, twap_interval: None }));
            }
            if v.ok && !v.open {
                return Some(Step::new(&roles.vamm_owner[i], Op::SetOpen { vamm: i, open: true }));
            }
            if v.ok && !v.registered && r.w.cfg.vamms[i].decimals == r.w.cfg.coll.decimals() && r.obs.registry.len() < 3 {
                return Some(Step::new(&roles.if_owner, Op::AddVamm { vamm: format!("@vamm{}", i) }));
            }
        }
        None
    }

    fn attach_probes(&mut self, r: &Runner, rng: &mut Rng, st: &mut Step) {
        let i = r.steps_done;
        match self.profile.prop.as_str() {
            "C07" => {
                if rng.chance(2, 3) {
                    st.probes.push(Probe::Liveness);
                }
            }
            "C08" => {
                if st.op.is_engine_user_op() && st.fault.is_none() && rng.chance(1, 3) {
                    st.probes.push(Probe::FaultEnum);
                }
            }
            "C09" => {
                let role_change = matches!(st.op, Op::EngineConfig { owner: Some(_), .. } | Op::UpdatePauser { .. } | Op::VammOwner { .. } | Op::IfOwner { .. } | Op::FpOwner { .. } | Op::PfOwner { .. });
                if role_change || i % 10 == 9 {
                    st.probes.push(Probe::RoleMatrix);
                }
            }
            "C10" => {
                if i % 20 == 19 {
                    st.probes.push(Probe::Queries);
                }
            }
            "C14" => {
                if i % 6 == 5 || matches!(st.op, Op::SetPause { .. } | Op::SetOpen { .. } | Op::RemoveVamm { .. }) {
                    st.probes.push(Probe::Gates);
                }
                if i % 12 == 11 {
                    st.probes.push(Probe::ShutdownSubsets);
                }
            }
            "C16" => {
                if matches!(st.op, Op::Liquidate { .. }) || rng.chance(1, 4) {
                    st.probes.push(Probe::Restriction);
                }
            }
            _ => {}
        }
    }

    fn gen_direct(&mut self, r: &mut Runner, rng: &mut Rng, cat: usize) -> Step {
        let v = self.pick_vamm(r, rng);
        let vo = r.obs.vamms[v].clone();
        let d = vo.decimals.max(1);
        match cat {
            4 => {
                // toggles and config
                let owner = r.obs.vamms[v].owner.clone();
                return match rng.below(4) {
                    0 => Step::new(&owner, Op::SetOpen { vamm: v, open: !vo.open }),
                    1 => Step::new(&owner, Op::VammConfig { vamm: v, holding_cap: None, oi_cap: None, toll: None, spread: None, fluct: Some(d / 10_000 * (*rng.pick(&[0u128, 50, 100, 500, 2000]))), margin_engine: None, insurance_fund: None, pricefeed: None, twap_interval: None }),
                    2 => Step::new(&owner, Op::VammConfig { vamm: v, holding_cap: None, oi_cap: None, toll: None, spread: None, fluct: None, margin_engine: None, insurance_fund: None, pricefeed: None, twap_interval: Some(*rng.pick(&[60u64, 900, 3600, 86400, 604800])) }),
                    _ => Step::new(crate::world::DRIVER, Op::SettleFunding { vamm: v }),
                };
            }
            2 => {
                return self.gen_oracle(r, rng);
            }
            6 => {
                // swaps from someone who is not the margin engine
                return Step::new("stranger", Op::SwapInput { vamm: v, dir: Dir::Add, quote: d, limit: 0, can_go_over: false });
            }
            _ => {}
        }
        if self.profile.marathon == Some("blocks") && vo.fluct > 0 && vo.fluct < d && vo.q < 10u128.pow(30) && vo.b < 10u128.pow(30) && vo.q > d && vo.b > d && rng.chance(1, 2) {
            // walk the price by about two thirds of the band width per trade, several trades in the same direction: each
            // stays inside a band taken around the latest price, two of them leave the band around the previous block's
            // (back towards the starting price once it has drifted far, so that the reserves stay in range)
            let p0 = r.model.prices[v].first().map(|x| x.price).unwrap_or(vo.spot).max(1);
            let up = if vo.spot > p0.saturating_mul(4) { false } else if vo.spot < p0 / 4 { true } else { (r.steps_done / 3) % 2 == 0 };
            let x = vo.fluct / 3 * 2;
            let amt = if up { quote_for_price_up(vo.q, x, d) } else { quote_for_price_down(vo.q, x, d) }.unwrap_or(1).max(1);
            return Step::new(crate::world::DRIVER, Op::SwapInput { vamm: v, dir: if up { Dir::Add } else { Dir::Remove }, quote: amt, limit: 0, can_go_over: false });
        }
        let dir = if rng.chance(1, 2) { Dir::Add } else { Dir::Remove };
        let input = rng.chance(1, 2);
        let res = if input { vo.q } else { vo.b };
        let amt = match rng.below(12) {
            0 => rng.range128(1, 10),
            1 => rng.range128(1, d),
            2 => res / 2,
            3 => res / 10 * 9,
            4 => res,
            5 => res.saturating_sub(1),
            6 => d * rng.range128(1, 50),
            _ => rng.log_range(res / 1_000_000 + 1, res / 4 + 2),
        }
        .max(1);
        // mostly keep both reserves above one whole unit (the quantifier's domain); sometimes try to drain them
        let amt = if dir == Dir::Remove && rng.chance(7, 8) { amt.min(res.saturating_sub(d).max(1)) } else { amt };
        let amt = if dir == Dir::Add && rng.chance(7, 8) {
            // adding to one side shrinks the other: stay where the other reserve keeps at least one unit
            let other = if input { vo.b } else { vo.q };
            if other > d { amt.min(mul_div(res, other - d, d).unwrap_or(amt).max(1)) } else { amt.min(res / 1000 + 1) }
        } else {
            amt
        };
        // limits on both sides of and exactly at the quoted amount
        let quote = if input { curve_input(dir, amt, vo.q, vo.b, d) } else { curve_output(dir, amt, vo.q, vo.b, d) };
        let limit = match (quote, rng.below(8)) {
            (Some(qv), 0) => qv,
            (Some(qv), 1) => qv + 1,
            (Some(qv), 2) => qv.saturating_sub(1),
            (Some(qv), 3) => qv.saturating_mul(2),
            (Some(qv), 4) => qv / 2,
            _ => 0,
        };
        // a swap of nothing, with and without a limit
        let (amt, limit) = if rng.chance(1, 40) { (0, if rng.chance(2, 3) { rng.range128(1, 10) } else { 0 }) } else { (amt, limit) };
        let op = if input {
            Op::SwapInput { vamm: v, dir, quote: amt, limit, can_go_over: rng.chance(1, 4) }
        } else {
            Op::SwapOutput { vamm: v, dir, base: amt, limit }
        };
        Step::new(crate::world::DRIVER, op)
    }

    fn gen_feed(&mut self, r: &mut Runner, rng: &mut Rng) -> Step {
        let now = r.w.now();
        let v = 0usize;
        let last = r.model.feed.get(0).and_then(|f| f.last().cloned());
        let (lt, lp) = last.unwrap_or((0, 1_000_000));
        let price = match rng.below(5) {
            0 => lp,
            1 => rng.range128(1, 1000),
            _ => mul_div(lp.min(10u128.pow(30)), (100 + *rng.pick(&[-50i128, -10, -1, 1, 10, 50, 100])) as u128, 100).unwrap_or(lp).max(1),
        };
        let ts = match rng.below(5) {
            0 => lt,
            1 => now,
            _ => rng.range(lt.max(now.saturating_sub(5000)), now),
        }
        .max(lt)
        .min(now);
        let owner = r.w.cfg.roles.pf_owner.clone();
        if r.steps_done == 0 && rng.chance(1, 2) {
            // the feed is first met empty: a submission by somebody who may not submit (the queries of an empty key are judged)
            return Step::new("stranger", Op::AppendPrice { vamm: v, price, timestamp: ts });
        }
        if rng.chance(1, 40) {
            // arrays of different lengths: to be refused as a whole
            return Step::new(&owner, Op::AppendMulti { vamm: v, prices: vec![price.to_string(), (price + 1).to_string()], timestamps: vec![ts] });
        }
        if rng.chance(1, 6) {
            let ts2 = rng.range(ts, now);
            Step::new(&owner, Op::AppendMulti { vamm: v, prices: vec![price.to_string(), (price + 7).to_string()], timestamps: vec![ts, ts2] })
        } else {
            Step::new(&owner, Op::AppendPrice { vamm: v, price, timestamp: ts })
        }
    }
}

pub struct RolesNow {
    pub engine_owner: String,
    pub pauser: String,
    pub if_owner: String,
    pub fp_owner: String,
    pub pf_owner: String,
    pub vamm_owner: Vec<String>,
}

pub fn current_roles(r: &Runner) -> RolesNow {
    let e = r.obs.eng.clone().unwrap_or_default();
    RolesNow {
        engine_owner: e.owner.clone(),
        pauser: e.pauser.clone(),
        if_owner: r.obs.if_owner.clone(),
        fp_owner: r.obs.fp_owner.clone(),
        pf_owner: r.obs.pf_owner.clone(),
        vamm_owner: r.obs.vamms.iter().map(|v| v.owner.clone()).collect(),
    }
}

/// a deployment address as the symbolic name replays and the twin driver use (plain account names are kept)
fn sym_addr(r: &Runner, a: &str) -> String {
    if a == r.w.addrs.insurance_fund {
        "@if".into()
    } else if a == r.w.addrs.fee_pool {
        "@fp".into()
    } else if a == r.w.addrs.engine {
        "@engine".into()
    } else {
        a.to_string()
    }
}

/// a hand-over to nobody now and then: the empty address (refused by address validation today; a contract that took it
/// as a renouncement would have to leave the role with nobody at all)
fn next_holder_or_nobody(rng: &mut Rng, cur: &str) -> String {
    if rng.chance(1, 8) {
        String::new()
    } else {
        next_holder(cur)
    }
}

fn next_holder(cur: &str) -> String {
    if cur == "newowner" {
        "stranger".into()
    } else {
        "newowner".into()
    }
}

/// Native collateral: how much the caller has to attach for the call to be accepted. Candidates are tried in a fork.
pub fn native_funds(r: &mut Runner, actor: &str, op: &Op) -> U {
    if !r.w.cfg.coll.is_native() {
        return 0;
    }
    let d = r.w.d;
    match op {
        Op::Deposit { amount, .. } => *amount,
        Op::Open { vamm, side, margin, leverage, .. } => {
            let vo = match r.obs.vamms.get(*vamm) {
                Some(v) => v.clone(),
                None => return 0,
            };
            let n = mul_div(*margin, *leverage, d).unwrap_or(0);
            let fees = fee(n, vo.toll, d).unwrap_or(0) + fee(n, vo.spread, d).unwrap_or(0);
            let s = mul_div(n, d, (*leverage).max(1)).unwrap_or(0);
            let pos = r.obs.position(*vamm, actor).cloned().filter(|p| p.size != 0);
            let mut cands: Vec<U> = vec![];
            match pos {
                None => cands.push(s + fees),
                Some(p) if p.dir == side.dir() => cands.push(s + fees),
                Some(p) => {
                    let cur = curve_output(p.dir, p.size.unsigned_abs(), vo.q, vo.b, vo.decimals.max(1)).unwrap_or(0);
                    if cur > n {
                        cands.push(fees);
                    } else {
                        let rem = n.abs_diff(cur);
                        let s2 = mul_div(rem, d, (*leverage).max(1)).unwrap_or(0);
                        let pnl = pnl(p.dir, cur, p.notional).unwrap_or(0);
                        let eq = (p.margin as i128 + pnl).max(0) as u128;
                        cands.push(fees + s2);
                        cands.push(fees);
                        cands.push((fees + s2).saturating_sub(eq));
                        if fees > eq {
                            cands.push(fees - eq + s2);
                            cands.push(fees - eq);
                        }
                    }
                }
            }
            cands.dedup();
            if cands.len() == 1 {
                return cands[0];
            }
            let a = actor.to_string();
            let o = op.clone();
            let first = cands[0];
            let found = r.fork(|w| {
                let snap = w.snapshot();
                for c in cands.iter() {
                    let out = w.exec(&a, &o, *c, None);
                    w.restore(&snap);
                    if out.ok {
                        return Some(*c);
                    }
                }
                None
            });
            found.unwrap_or(first)
        }
        Op::Close { vamm, .. } => {
            // the closing fees, which a cw20 deployment pulls from the caller: the vAMM's fee on the open notional for a
            // whole close, on the traded notional for a partial close (candidates are tried in a fork)
            let vo = match r.obs.vamms.get(*vamm) {
                Some(v) => v.clone(),
                None => return 0,
            };
            let p = match r.obs.position(*vamm, actor).cloned().filter(|p| p.size != 0) {
                Some(p) => p,
                None => return 0,
            };
            let fees_of = |n: U| fee(n, vo.toll, d).unwrap_or(0) + fee(n, vo.spread, d).unwrap_or(0);
            let mut cands: Vec<U> = vec![fees_of(p.notional)];
            let pr = r.obs.eng.as_ref().map(|e| e.partial).unwrap_or(0);
            let part = mul_div(p.size.unsigned_abs(), pr, d).unwrap_or(0);
            if let Some(qp) = curve_output(p.dir, part, vo.q, vo.b, vo.decimals.max(1)) {
                cands.push(fees_of(qp));
            }
            cands.push(0);
            cands.dedup();
            if cands.len() == 1 {
                return cands[0];
            }
            let a = actor.to_string();
            let o = op.clone();
            let first = cands[0];
            let found = r.fork(|w| {
                let snap = w.snapshot();
                for c in cands.iter() {
                    let out = w.exec(&a, &o, *c, None);
                    w.restore(&snap);
                    if out.ok {
                        return Some(*c);
                    }
                }
                None
            });
            found.unwrap_or(first)
        }
        _ => 0,
    }
}
