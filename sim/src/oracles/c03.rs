//! C03 - collateral conserved; only permitted recipients.
use serde_json::json;
use std::collections::BTreeSet;

use crate::run::{Ctx, Ev};
use crate::types::*;
use crate::world::World;

pub fn step(ctx: &Ctx, w: &World, ev: &mut Ev) {
    if w.cfg.kind != WorldKind::Standard {
        return;
    }
    let kind = ctx.step.op.kind();
    let coll = if w.cfg.coll.is_native() { "native" } else { "cw20" };
    let (t0, t1) = (ctx.pre.total(), ctx.post.total());
    let mut names: BTreeSet<&String> = ctx.pre.bal.keys().collect();
    names.extend(ctx.post.bal.keys());
    let changed: Vec<String> = names.iter().filter(|n| ctx.pre.bal(n) != ctx.post.bal(n)).map(|n| n.to_string()).collect();
    let sender = w.resolve(&ctx.step.actor);
    // the fee pool the engine is configured with at the time of the transaction (the owner may re-point it)
    let cur_fp = ctx.model.fee_pool_ref.clone().unwrap_or_else(|| w.addrs.fee_pool.clone());
    let role_of = |a: &str| -> String {
        if a == sender {
            "sender".into()
        } else if a == w.addrs.engine {
            "engine".into()
        } else if a == w.addrs.insurance_fund {
            "insurance_fund".into()
        } else if a == cur_fp || (a == w.addrs.fee_pool && matches!(ctx.step.op, Op::FpSend { .. })) {
            "fee_pool".into()
        } else if w.addrs.vamms.iter().any(|v| v == a) {
            "vamm".into()
        } else if a.starts_with("trader") || a == "whale" {
            "other_trader".into()
        } else {
            a.to_string()
        }
    };
    let roles: BTreeSet<String> = changed.iter().map(|a| role_of(a)).collect();
    let failclass = if ctx.out.ok { "ok" } else if ctx.out.fault_fired.is_some() { "fault" } else { "err" };
    ev.eval(!changed.is_empty() || ctx.out.fault_fired.is_some(), &(coll, kind, roles.clone(), failclass), || {
        json!({"op": kind, "collateral": coll, "changed": changed, "total": t0.to_string(), "result": failclass})
    });
    if t0 != t1 {
        ev.violation("total_conserved", &format!("{},{}", coll, kind), json!({"total_pre": t0.to_string(), "total_post": t1.to_string()}));
    }
    match &ctx.step.op {
        Op::Transfer { .. } | Op::SetAllowance { .. } => {}
        Op::FpSend { recipient, amount } => {
            let rcp = w.resolve(recipient);
            for a in changed.iter() {
                if *a != w.addrs.fee_pool && *a != rcp {
                    ev.violation("recipients", &format!("{},{},{}", coll, kind, role_of(a)), json!({"account": a}));
                }
            }
            if ctx.out.ok && rcp != w.addrs.fee_pool {
                let got = ctx.delta(&rcp);
                if got != *amount as i128 {
                    ev.violation("recipients", &format!("{},{},amount", coll, kind), json!({"got": got.to_string(), "amount": amount.to_string()}));
                }
            }
        }
        op => {
            for a in changed.iter() {
                let r = role_of(a);
                if !(r == "sender" || r == "engine" || r == "insurance_fund" || r == "fee_pool") {
                    ev.violation(
                        "recipients",
                        &format!("{},{},{}", coll, kind, r),
                        json!({"account": a, "pre": ctx.pre.bal(a).to_string(), "post": ctx.post.bal(a).to_string()}),
                    );
                }
            }
            if let Op::Liquidate { trader, .. } = op {
                let t = w.resolve(trader);
                if t == sender && ctx.out.ok {
                    // the sender is the liquidator and may receive the liquidator's reward - half the penalty on the
                    // quote exchanged - but nothing of what the liquidated position leaves
                    if let (Some(e), Some(v)) = (&ctx.pre.eng, op.vamm_idx()) {
                        if v < ctx.pre.vamms.len() {
                            let q = ctx.pre.vamms[v].q.abs_diff(ctx.post.vamms[v].q);
                            let reward = crate::refmodel::mul_div(q, e.liq_fee, w.d).unwrap_or(U::MAX) / 2;
                            let got = ctx.inflow(&t);
                            ev.count("self_liquidation");
                            if got > reward {
                                ev.violation("liquidated_gets_nothing", &format!("{},self,more_than_the_reward", coll), json!({"trader": t, "received": got.to_string(), "liquidator_reward": reward.to_string()}));
                            }
                        }
                    }
                }
                if t != sender && ctx.out.ok {
                    ev.count("liquidation_by_other");
                    let got = ctx.inflow(&t);
                    if ctx.delta(&t) != 0 || got != 0 {
                        ev.violation(
                            "liquidated_gets_nothing",
                            &format!("{},{}", coll, crate::oracles::c02::reply_arm(ctx)),
                            json!({"trader": t, "delta": ctx.delta(&t).to_string(), "received": got.to_string()}),
                        );
                    }
                }
            }
        }
    }
}
