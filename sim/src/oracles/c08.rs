//! C08 - engine transactions are all-or-nothing and leave no in-flight residue.
use serde_json::json;

use crate::run::{Ctx, Ev, Runner};
use crate::types::*;
use crate::world::World;

pub fn step(ctx: &Ctx, w: &World, ev: &mut Ev) {
    if w.cfg.kind != WorldKind::Standard {
        return;
    }
    let kind = ctx.step.op.kind();
    // no residue after any transaction, successful or not
    let res = w.engine_residue(&ctx.post.dump);
    for key in res.iter() {
        ev.violation("residue", &format!("{},{},{}", kind, key, if ctx.out.ok { "ok" } else { "err" }), json!({"key": key, "op": kind}));
    }
    // a liquidator record kept anywhere - under another key, inside another record - shows as the liquidator's address
    // turning up in the engine's storage: judged for liquidators the engine has no other reason to know (no position,
    // no role, not whitelisted, not the liquidated trader)
    if let (true, Op::Liquidate { trader, .. }) = (ctx.out.ok, &ctx.step.op) {
        let me = w.resolve(&ctx.step.actor);
        let known = ctx.post.pos.iter().any(|((_, t), _)| *t == me)
            || ctx.pre.pos.iter().any(|((_, t), _)| *t == me)
            || ctx.model.whitelist.contains(&me)
            || me == w.resolve(trader)
            || ctx.post.eng.as_ref().map(|e| e.owner == me || e.pauser == me).unwrap_or(false)
            || me.len() < 5;
        if !known {
            let p = World::contract_prefix(&w.addrs.engine);
            let needle = me.as_bytes();
            let holds = |dump: &crate::world::Dump| dump.iter().filter(|(k, _)| k.starts_with(&p)).any(|(k, v)| v.windows(needle.len()).any(|x| x == needle) || k.windows(needle.len()).any(|x| x == needle));
            ev.count("liquidator_identity_scan");
            if holds(&ctx.post.dump) && !holds(&ctx.pre.dump) {
                ev.violation("residue", &format!("{},liquidator identity kept,ok", kind), json!({"liquidator": me, "op": kind}));
            }
        }
    }
    if !ctx.step.op.is_engine_user_op() {
        return;
    }
    if let Some((k, comp)) = &ctx.out.fault_fired {
        ev.eval(ctx.out.n_msgs >= 2, &(kind, ctx.out.n_msgs, *k, comp.clone(), "main"), || {
            json!({"op": kind, "fault_at": k, "component": comp, "messages": ctx.out.n_msgs, "result_ok": ctx.out.ok})
        });
        if ctx.out.ok {
            ev.violation("fault_must_fail", &format!("{},{}", kind, comp), json!({"k": k, "component": comp, "trace": ctx.out.trace}));
        }
    }
    if !ctx.out.ok {
        if ctx.out.fault_fired.is_none() {
            ev.count("natural_failure");
            ev.eval(true, &(kind, "natural", err_class(&ctx.out.err)), || json!({"op": kind, "natural_failure": ctx.out.err.chars().take(120).collect::<String>()}));
        }
        if ctx.pre.dump != ctx.post.dump {
            ev.violation("fault_dump_equal", &format!("{},main", kind), json!({"err": ctx.out.err}));
        }
    }
}

pub fn err_class(e: &str) -> &'static str {
    if e.contains("injected fault") {
        "injected"
    } else if e.contains("allowance") || e.contains("No allowance") {
        "allowance"
    } else if e.contains("Overflow") || e.contains("overflow") {
        "overflow"
    } else if e.contains("limit") {
        "limit"
    } else if e.contains("closed") || e.contains("not open") {
        "closed"
    } else if e.contains("paused") {
        "paused"
    } else if e.contains("panic") {
        "panic"
    } else {
        "other"
    }
}

/// For the operation about to run: dry run, then fail every message index in turn (exhaustive per sampled state).
pub fn fault_enum(r: &mut Runner, step: &Step) {
    if !step.op.is_engine_user_op() {
        return;
    }
    let kind = step.op.kind();
    let snap = r.w.snapshot();
    let pre_dump = snap.dump.clone();
    let dry = r.w.exec(&step.actor, &step.op, step.funds, None);
    let d0 = r.w.dump();
    r.w.restore(&snap);
    r.ev.forks += 1;
    let n = dry.n_msgs;
    r.ev.count(&format!("enum/{}/N={}", kind, n));
    let arm = {
        let mut s = String::new();
        for e in dry.events.iter() {
            if e.ty == "wasm" {
                for a in e.attributes.iter() {
                    if a.key == "action" && a.value.ends_with("_reply") {
                        s = a.value.clone();
                    }
                }
            }
        }
        s
    };
    if !arm.is_empty() {
        r.ev.count(&format!("enum_arm/{}", arm));
    }
    for k in 1..=n {
        let out = r.w.exec(&step.actor, &step.op, step.funds, Some(Fault::Index(k)));
        r.ev.forks += 1;
        let comp = out.fault_fired.as_ref().map(|x| x.1.clone()).unwrap_or_else(|| "none".into());
        let fired = out.fault_fired.is_some();
        r.ev.eval(n >= 2 && fired, &(kind, n, k, comp.clone()), || {
            json!({"op": serde_json::to_value(&step.op).unwrap_or_default(), "messages": n, "fault_at": k, "component": comp, "trace": dry.trace, "result_ok": out.ok})
        });
        if fired {
            r.ev.count("fault_fired");
            r.ev.count(&format!("fault_fired/{}", comp));
            if out.ok {
                r.ev.violation("fault_must_fail", &format!("{},{}", kind, comp), json!({"k": k, "n": n, "component": comp, "trace": out.trace}));
            }
        }
        let dk = r.w.dump();
        if !out.ok && dk != pre_dump {
            r.ev.violation("fault_dump_equal", &format!("{},{}", kind, comp), json!({"k": k, "n": n}));
        }
        for key in r.w.engine_residue(&dk) {
            r.ev.violation("residue", &format!("{},{},fault", kind, key), json!({"k": k, "key": key}));
        }
        if out.ok {
            r.w.restore(&snap);
            continue;
        }
        if dk != pre_dump {
            r.w.restore(&snap);
        }
        // retry without the fault: nothing left behind may change the outcome
        let again = r.w.exec(&step.actor, &step.op, step.funds, None);
        let d1 = r.w.dump();
        if again.ok != dry.ok || d1 != d0 {
            r.ev.violation("retry_equal", &format!("{},{}", kind, comp), json!({"k": k, "n": n, "dry_ok": dry.ok, "retry_ok": again.ok, "retry_err": again.err}));
        }
        r.w.restore(&snap);
    }
}
