//! C07 - under-margined positions can always be liquidated (liveness, fork-and-probe; one transaction, no retries).
use serde_json::json;

use super::engine_refs::*;
use crate::obs::{pi, pu};
use crate::refmodel::*;
use crate::run::Runner;
use crate::types::*;
use crate::world::{KEYS, TREASURY};

fn err_class(e: &str) -> &'static str {
    if e.contains("parsing") || e.contains("Invalid type") || e.contains("nvalid type") {
        "decode"
    } else if e.contains("Overflow") || e.contains("overflow") {
        "overflow"
    } else if e.contains("transfer failure") {
        "transfer"
    } else if e.contains("panic") {
        "panic"
    } else {
        "other"
    }
}

pub fn probe(r: &mut Runner, _step: &Step) {
    if r.w.cfg.kind != WorldKind::Standard {
        return;
    }
    let d = r.w.d;
    let eng = match &r.obs.eng {
        Some(e) => e.clone(),
        None => return,
    };
    if eng.liq_fee == 0 {
        r.ev.count("skip/liq_fee_zero");
        return;
    }
    let keys: Vec<(usize, String)> = r.obs.pos.iter().filter(|(_, p)| p.size != 0).map(|(k, _)| k.clone()).collect();
    let okind = if r.w.cfg.oracle == OracleKind::Real { "real_feed" } else { "mock_feed" };
    for (v, t) in keys {
        let pos = r.obs.pos[&(v, t.clone())].clone();
        let vo = r.obs.vamms[v].clone();
        if !vo.ok || !vo.open || !vo.registered {
            r.ev.count("skip/vamm_closed_or_unregistered");
            continue;
        }
        // (the vAMM's own insurance-fund field - who may open and close it - has no part in the statement's premises:
        // a market registered with the engine's fund is probed whatever that field names)
        if vo.margin_engine != r.w.addrs.engine {
            continue;
        }
        let va = r.w.addrs.vamms[v].clone();
        let w = &r.w;
        // oracle price straight from the feed (the precondition "the oracle has a non-zero price")
        let feed_price = match w.q(&w.addrs.pricefeed, json!({"get_price": {"key": KEYS[v.min(3)]}})) {
            Ok(x) => {
                if x.is_string() {
                    pu(&x)
                } else {
                    pu(&x["price"])
                }
            }
            Err(_) => 0,
        };
        if feed_price == 0 {
            r.ev.count("skip/oracle_price_zero");
            continue;
        }
        let sz = pos.size.unsigned_abs();
        // beyond the stated range (section 8): a position so large that its oracle valuation (price x size) cannot be
        // written in the contracts' 128-bit arithmetic has no liquidation ratio the engine could compute
        if feed_price.checked_mul(sz).is_none() || sz.checked_mul(d).is_none() {
            r.ev.count("skip/position_beyond_128_bit_valuation");
            continue;
        }
        let out_whole = w.q(&va, json!({"output_amount": {"direction": pos.dir.js(), "amount": sz.to_string()}}));
        let a = mul_div(sz, eng.partial, d).unwrap_or(0);
        let out_part = w.q(&va, json!({"output_amount": {"direction": pos.dir.js(), "amount": a.to_string()}}));
        let (qw, qp) = match (out_whole, out_part) {
            (Ok(x), Ok(y)) => (pu(&x), pu(&y)),
            _ => {
                r.ev.count("skip/closing_trade_not_fillable");
                continue;
            }
        };
        if qw == 0 {
            r.ev.count("skip/closing_trade_not_fillable");
            continue;
        }
        // band precondition: spot inside the block's band, or no limit
        if vo.fluct != 0 {
            let h = r.obs.height;
            let pref = r.model.prices[v].iter().rev().find(|x| x.height < h).map(|x| x.price);
            let inside = match pref {
                Some(p) => {
                    match crate::refmodel::band_bounds(p, vo.fluct, d) {
                        Some((lo, up)) => vo.spot >= lo && vo.spot <= up,
                        None => false,
                    }
                }
                None => false,
            };
            if !inside {
                r.ev.count("skip/outside_band");
                continue;
            }
        }
        // reference liquidation ratio from queries and the feed price
        let spot_n = qw;
        // the 15-minute TWAP of the closing notional: the harness's own (from its per-block record of the reserves)
        // when it can be computed, else the vAMM's answer
        let twap_own = r.model.prices.get(v).map(|recs| super::engine_refs::twap_output_ref(recs, pos.dir, sz, 900, r.obs.time, vo.decimals.max(1))).unwrap_or(super::engine_refs::TwapRef::Unknown);
        let twap_q = w.q(&va, json!({"output_twap": {"direction": pos.dir.js(), "amount": sz.to_string()}})).ok().map(|x| pu(&x));
        // None: the TWAP valuation is unbounded (a record of the window cannot fill the trade) - spot is the smaller one
        let twap: Option<U> = match (twap_own, twap_q) {
            (super::engine_refs::TwapRef::Value(a), Some(b)) => {
                r.ev.count(if a == b { "twap15_reference_equals_vamm_answer" } else { "twap15_reference_differs_from_vamm_answer" });
                // within one unit the vAMM's answer is a rounding of the same average (the statement does not say how
                // it is rounded) and is taken; further away the harness's own stands
                if a.abs_diff(b) <= 1 {
                    Some(b)
                } else {
                    Some(a)
                }
            }
            (super::engine_refs::TwapRef::Value(a), None) => {
                r.ev.count("twap15_vamm_query_failed_reference_available");
                Some(a)
            }
            (super::engine_refs::TwapRef::Unbounded, _) => {
                r.ev.count("twap15_unbounded_spot_binding");
                None
            }
            (super::engine_refs::TwapRef::Unknown, Some(b)) => Some(b),
            (super::engine_refs::TwapRef::Unknown, None) => {
                r.ev.count("skip/twap_unavailable");
                continue;
            }
        };
        let f = match funding_owed(vo.cum, pos.checkpoint, pos.size, d) {
            Some(x) => x,
            None => continue,
        };
        let sp = match pnl(pos.dir, spot_n, pos.notional) {
            Some(a) => a,
            None => continue,
        };
        let (n_sel, p_sel) = match twap {
            Some(tw) => {
                let tp = match pnl(pos.dir, tw, pos.notional) {
                    Some(b) => b,
                    None => continue,
                };
                if sp.unsigned_abs() > tp.unsigned_abs() { (tw, tp) } else { (spot_n, sp) }
            }
            None => (spot_n, sp),
        };
        let mut rl = match ratio_ext(pos.margin, p_sel, f, n_sel, d) {
            Some(x) => x,
            None => continue,
        };
        let dev = smul_div(vo.spot as i128 - feed_price as i128, d as i128, feed_price as i128).unwrap_or(0);
        if dev.unsigned_abs() >= d / 10 {
            // (a position worth nothing at the oracle price still has an equity there, and its sign decides)
            let on = mul_div(feed_price, sz, d).unwrap_or(0);
            if let Some(op) = pnl(pos.dir, on, pos.notional) {
                if let Some(ro) = ratio_ext(pos.margin, op, f, on, d) {
                    if ro > rl {
                        rl = ro;
                    }
                }
            }
        }
        if rl >= eng.maintenance as i128 {
            continue;
        }
        // all stated preconditions hold: the liquidation must go through
        let e_spot = pos.margin as i128 + sp - f;
        let vault = r.obs.bal(&r.w.addrs.engine);
        let gtfee0 = rl.unsigned_abs() > eng.liq_fee && eng.partial != 0;
        let need: i128 = if gtfee0 { (mul_div(qp, eng.liq_fee, d).unwrap_or(0) / 2 * 2) as i128 } else { e_spot.max(0) };
        let vault_short = (vault as i128) < need;
        let side = if pos.size > 0 { "long" } else { "short" };
        let pclass = if eng.partial == 0 { "p0" } else if eng.partial >= d { "p1" } else { "pfrac" };
        let rsign = if rl < 0 { "neg" } else { "nonneg" };
        let gtfee = rl.unsigned_abs() > eng.liq_fee;
        let quote_branch = eng.partial != 0 && qp > pos.notional;
        let liquidator = ["liquidator", "stranger", "keeper"][(r.steps_done + v) % 3].to_string();
        // enough for any shortfall of this liquidation: the bad debt plus the penalty, twice over
        let shortfall_bound = ((-e_spot).max(0) as u128).saturating_add(mul_div(qw, eng.liq_fee, d).unwrap_or(0)).saturating_add(vault);
        // every other probe establishes the precondition tightly: the fund ends up holding just what this liquidation
        // can ask of it at most (the magnitude of the equity plus the whole penalty), if it does not hold more already
        let tight = (r.steps_done + v) % 2 == 1;
        let topup = if tight {
            let most = e_spot.unsigned_abs().saturating_add(mul_div(qw, eng.liq_fee, d).unwrap_or(0)).saturating_add(2);
            most.saturating_sub(r.obs.bal(&r.w.addrs.insurance_fund)).max(1)
        } else {
            r.w.cfg.trader_balance.saturating_mul(40).max(shortfall_bound.saturating_mul(2))
        };
        r.ev.count(if tight { "probe_fund_topped_up_tightly" } else { "probe_fund_topped_up_amply" });
        let nv = r.w.addrs.vamms.len();
        let ifund = r.w.addrs.insurance_fund.clone();
        let tt = t.clone();
        let out = r.fork(|w| {
            // establish the last precondition: the insurance fund holds enough to cover any shortfall
            let top = w.exec(TREASURY, &Op::Transfer { to: ifund.clone(), amount: topup }, 0, None);
            let mut out = w.exec(&liquidator, &Op::Liquidate { vamm: v, trader: tt.clone(), limit: 0 }, 0, None);
            if !top.ok {
                out.err = format!("TOPUP-FAILED {}", out.err);
            }
            out
        });
        if out.err.starts_with("TOPUP-FAILED") {
            // the insurance fund could not be funded in the fork: the last precondition is not established
            r.ev.count("skip/insurance_fund_topup_failed");
            continue;
        }
        let bucket = if rl < -(d as i128) { "lt_minus_1" } else if rl < 0 { "neg" } else { "pos" };
        r.ev.eval(true, &(okind, bucket, pclass, vault_short, side, nv, gtfee), || {
            json!({"probe": "liveness", "vamm": v, "trader": t, "ratio_liq": rl.to_string(), "maintenance": eng.maintenance.to_string(), "partial_ratio": eng.partial.to_string(), "vault": vault.to_string(), "equity_spot": e_spot.to_string(), "oracle": okind, "liquidated": out.ok})
        });
        r.ev.count(&format!("probe/{}/{}/{}{}", okind, bucket, pclass, if vault_short { "/vault_short" } else { "" }));
        if !out.ok {
            let ec = err_class(&out.err);
            let partial_path = gtfee && eng.partial != 0;
            let disc = if ec == "decode" {
                // the oracle answer cannot be decoded: nothing else about the state matters
                format!("{},decode", okind)
            } else {
                // identified by failing call site: error class x liquidation path (x vault state for transfer failures)
                let q_path = if partial_path { qp } else { qw };
                let fee_zero = mul_div(q_path, eng.liq_fee, d).unwrap_or(0) / 2 == 0;
                let oracle_notional_zero = mul_div(feed_price, sz, d).unwrap_or(0) == 0 || twap == Some(0);
                let path = if partial_path { "partial_path" } else { "full_path" };
                // full path: bad debt exactly equal to the prepaid amount makes the engine ask the fund for zero tokens
                let half = mul_div(qw, eng.liq_fee, d).unwrap_or(0) / 2;
                let rem = e_spot.max(0) as u128;
                let bad = (-e_spot).max(0) as u128 + half.saturating_sub(rem);
                let zero_withdrawal = !partial_path && bad != 0 && bad == eng.bad_debt;
                if ec == "transfer" && zero_withdrawal {
                    format!("{},{},bad_debt_equals_prepaid", ec, path)
                } else if ec == "transfer" {
                    format!("{},{},{}", ec, path, if vault_short { "vault_short" } else if fee_zero { "liquidator_fee_rounds_to_zero" } else { "vault_ok" })
                } else if ec == "panic" {
                    format!("{},{},{}", ec, path, if oracle_notional_zero { "dust_notional_zero" } else { "other" })
                } else {
                    format!("{},{}", ec, path)
                }
            };
            r.ev.violation(
                "liveness",
                &disc,
                json!({"vamm": v, "trader": t, "side": side, "ratio_liq": rl.to_string(), "maintenance": eng.maintenance.to_string(), "liq_fee": eng.liq_fee.to_string(), "partial": eng.partial.to_string(), "vault": vault.to_string(), "equity_spot": e_spot.to_string(), "error": crate::run::tail(&out.err, 200), "message_trace": out.trace}),
            );
        }
    }
    let _ = pi;
}
