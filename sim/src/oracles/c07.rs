use crate::run::Runner;
use crate::types::Step;
pub fn probe(_r: &mut Runner, _step: &Step) {}
