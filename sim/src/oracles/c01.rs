//! C01 - vAMM curve conservation.
use serde_json::json;

use crate::refmodel::k_scaled;
use crate::run::{Ctx, Ev};
use crate::world::World;

pub fn step(ctx: &Ctx, _w: &World, ev: &mut Ev) {
    for i in 0..ctx.post.vamms.len() {
        let (a, b) = (&ctx.pre.vamms[i], &ctx.post.vamms[i]);
        if !a.ok || !b.ok {
            continue;
        }
        const LIM: u128 = 1_000_000_000_000_000_000_000_000_000_000_000_000; // 10^36: beyond this the reference arithmetic is not trusted
        if a.q > LIM || a.b > LIM || b.q > LIM || b.b > LIM || a.size.unsigned_abs() > LIM || b.size.unsigned_abs() > LIM {
            ev.count("out_of_reference_range_skipped");
            continue;
        }
        let changed = a.q != b.q || a.b != b.b || a.size != b.size;
        let kind = ctx.step.op.kind();
        if !ctx.out.ok {
            if changed {
                ev.violation("reject_unchanged", kind, json!({"vamm": i, "pre": [a.q.to_string(), a.b.to_string()], "post": [b.q.to_string(), b.b.to_string()]}));
            }
            continue;
        }
        if !changed {
            continue;
        }
        let d = b.decimals.max(1);
        let (k0, k1) = (k_scaled(a.q, a.b, d), k_scaled(b.q, b.b, d));
        let up = b.q > a.q;
        let dirs = if up { "quote_in" } else { "quote_out" };
        if k1 < k0 {
            ev.violation(
                "k_monotone",
                &format!("{},{}", kind, dirs),
                json!({"vamm": i, "pre": [a.q.to_string(), a.b.to_string()], "post": [b.q.to_string(), b.b.to_string()], "k_pre": k0.to_string(), "k_post": k1.to_string()}),
            );
        }
        let lhs = b.b as i128 + b.size;
        let rhs = ctx.model.b0[i] as i128 + ctx.model.size0[i];
        if lhs != rhs {
            ev.violation(
                "base_plus_size",
                &format!("{},{}", kind, dirs),
                json!({"vamm": i, "base": b.b.to_string(), "size": b.size.to_string(), "b0": ctx.model.b0[i].to_string()}),
            );
        }
        if b.b >= d {
            if let Some(qmax) = ctx.model.q_at_size[i].get(&b.size) {
                ev.count("returned_to_earlier_size");
                if b.q < *qmax {
                    ev.violation(
                        "quote_at_same_size",
                        &format!("{},{}", kind, dirs),
                        json!({"vamm": i, "size": b.size.to_string(), "q_now": b.q.to_string(), "q_earlier": qmax.to_string()}),
                    );
                }
            }
        }
        let dq = if up { b.q - a.q } else { a.q - b.q };
        let db = if b.b > a.b { b.b - a.b } else { a.b - b.b };
        let rounded = k1 > k0;
        if rounded {
            ev.count("swap_with_remainder");
        }
        let bucket = if a.q == 0 { 0 } else { 128 - (dq.saturating_mul(1_000_000) / a.q.max(1)).leading_zeros() };
        let scale = if a.q > a.b.saturating_mul(100) { 2 } else if a.b > a.q.saturating_mul(100) { 0 } else { 1 };
        ev.eval(dq > 0 && db > 0, &(kind, up, rounded, bucket, scale), || {
            json!({"op": kind, "vamm": i, "pre": {"q": a.q.to_string(), "b": a.b.to_string()}, "post": {"q": b.q.to_string(), "b": b.b.to_string()}, "k_pre": k0.to_string(), "k_post": k1.to_string()})
        });
    }
}
