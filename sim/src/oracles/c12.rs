//! C12 - trading fees are exact, charged once, and routed to the right pools.
use serde_json::json;

use super::engine_refs::*;
use crate::refmodel::*;
use crate::run::{pq_field_u, Ctx, Ev};
use crate::types::*;
use crate::world::World;

fn ratio_class(r: U, d: U) -> &'static str {
    if r == 0 {
        "zero"
    } else if r == 1 {
        "one_ulp"
    } else if r >= d {
        "one"
    } else {
        "frac"
    }
}

pub fn step(ctx: &Ctx, w: &World, ev: &mut Ev) {
    if w.cfg.kind != WorldKind::Standard {
        return;
    }
    if !ctx.out.ok {
        // reach only: native calls refused for what was attached
        if matches!(ctx.step.op, Op::Close { .. } | Op::Open { .. }) && ctx.out.err.contains("sent funds are") {
            ev.count(&format!("refused_for_attached_funds/{}", ctx.step.op.kind()));
        }
        return;
    }
    let d = w.d;
    let ifund = w.addrs.insurance_fund.clone();
    let fpool = ctx.model.fee_pool_ref.clone().unwrap_or_else(|| w.addrs.fee_pool.clone());
    let actor = w.resolve(&ctx.step.actor);
    // inflows as they concern fees: anything reaching the pools that is not the engine settling funding / liquidation proceeds
    let to_if = ctx.inflow(&ifund);
    let to_fp = ctx.inflow(&fpool);
    match &ctx.step.op {
        Op::Open { vamm, .. } => {
            let v = *vamm;
            let vo = &ctx.pre.vamms[v];
            let class = match classify_open(ctx, w) {
                Some(c) => c,
                None => return,
            };
            let (es, et) = match (fee(class.n, vo.spread, d), fee(class.n, vo.toll, d)) {
                (Some(a), Some(b)) => (a, b),
                _ => return,
            };
            let rounds0 = (vo.spread > 0 && es == 0) || (vo.toll > 0 && et == 0);
            ev.eval(vo.spread > 0 || vo.toll > 0, &("open", class.kind, rounds0, ratio_class(vo.spread, d), ratio_class(vo.toll, d)), || {
                json!({"open": class.kind.s(), "notional": class.n.to_string(), "spread_ratio": vo.spread.to_string(), "toll_ratio": vo.toll.to_string(), "to_insurance_fund": to_if.to_string(), "to_fee_pool": to_fp.to_string()})
            });
            if rounds0 {
                ev.count("fee_rounds_to_zero");
            }
            if matches!(class.kind, OpenKind::Reverse | OpenKind::DustReverse) {
                ev.count("fee_on_reversal");
            }
            if to_if != es {
                let shape = if to_if == es.saturating_mul(2) { "double" } else if to_if == es + et { "both_to_if" } else { "other" };
                ev.violation("open_fee_if", &format!("{},{}", class.kind.s(), shape), json!({"to_insurance_fund": to_if.to_string(), "expected": es.to_string(), "notional": class.n.to_string()}));
            }
            if to_fp != et {
                let shape = if to_fp == et.saturating_mul(2) { "double" } else { "other" };
                ev.violation("open_fee_pool", &format!("{},{}", class.kind.s(), shape), json!({"to_fee_pool": to_fp.to_string(), "expected": et.to_string(), "notional": class.n.to_string()}));
            }
        }
        Op::Close { vamm, .. } => {
            let v = *vamm;
            let pos = match ctx.pre.position(v, &actor) {
                Some(p) if p.size != 0 => p.clone(),
                _ => return,
            };
            let moved = ctx.post.vamms[v].size - ctx.pre.vamms[v].size;
            if moved != -pos.size {
                ev.count("partial_close_fee_not_asserted");
                return;
            }
            let (qs, qt) = match (pq_field_u(ctx.preq, "calc_fee_notional", "spread_fee"), pq_field_u(ctx.preq, "calc_fee_notional", "toll_fee")) {
                (Some(a), Some(b)) => (a, b),
                _ => return,
            };
            let vo = &ctx.pre.vamms[v];
            ev.count(if w.cfg.coll.is_native() { "whole_close/native" } else { "whole_close/cw20" });
            ev.eval(vo.spread > 0 || vo.toll > 0, &("close", qs == 0, qt == 0, ratio_class(vo.spread, d), ratio_class(vo.toll, d)), || {
                json!({"close": "whole", "open_notional": pos.notional.to_string(), "quoted_spread_fee": qs.to_string(), "quoted_toll_fee": qt.to_string()})
            });
            if to_if != qs || to_fp != qt {
                ev.violation("close_fee", if to_if != qs { "insurance_fund" } else { "fee_pool" }, json!({"to_insurance_fund": to_if.to_string(), "to_fee_pool": to_fp.to_string(), "quoted_spread": qs.to_string(), "quoted_toll": qt.to_string()}));
            }
            // "charges": the fee is the closing trader's to pay. Whatever left the trader's wallet in this transaction,
            // net of what the engine paid out to them, is what they were charged - the same in both collateral kinds
            // (cw20: pulled from the wallet; native: attached to the call).
            let paid_out = ctx.sent(&w.addrs.engine, &actor) as i128;
            let charged = paid_out - ctx.delta(&actor);
            let due = (qs + qt) as i128;
            if actor != ifund && actor != fpool && charged != due {
                ev.count(if charged < due { "close_fee_undercharged" } else { "close_fee_overcharged" });
                let coll = if w.cfg.coll.is_native() { "native" } else { "cw20" };
                let shape = if charged == 0 { "nothing_charged" } else if charged < due { "undercharged" } else { "overcharged" };
                ev.violation("close_fee_payer", &format!("{},{}", coll, shape), json!({"charged_to_trader": charged.to_string(), "quoted_spread": qs.to_string(), "quoted_toll": qt.to_string(), "paid_out": paid_out.to_string(), "attached": ctx.step.funds.to_string()}));
            }
        }
        Op::Deposit { .. } | Op::Withdraw { .. } | Op::PayFunding { .. } | Op::Liquidate { .. } => {
            let kind = ctx.step.op.kind();
            ev.eval(ctx.pre.vamms.iter().any(|v| v.toll > 0 || v.spread > 0), &("nofee", kind), || json!({"op": kind, "fee_pool_delta": ctx.delta(&fpool).to_string()}));
            // no trading fee: fee pool untouched, and nothing flows from a trader's wallet to the insurance fund
            let trader_to_if = ctx.ledger.iter().filter(|x| x.to == ifund && x.from != w.addrs.engine).map(|x| x.amount).sum::<u128>();
            if ctx.delta(&fpool) != 0 || to_fp != 0 || trader_to_if != 0 {
                ev.violation("no_fee_op", kind, json!({"fee_pool_delta": ctx.delta(&fpool).to_string(), "wallet_to_insurance_fund": trader_to_if.to_string()}));
            }
            // a partial liquidation splits the penalty in halves between the liquidator and the insurance fund: whatever
            // the fund receives from the vault beyond the liquidator's half is a charge on top of the penalty - a fee
            if let Op::Liquidate { vamm, trader, .. } = &ctx.step.op {
                let t = w.resolve(trader);
                let partial = ctx.post.position(*vamm, &t).map(|p| p.size != 0).unwrap_or(false);
                if partial && actor != ifund && actor != t {
                    let to_liq = ctx.sent(&w.addrs.engine, &actor);
                    let to_fund = ctx.sent(&w.addrs.engine, &ifund);
                    if to_fund > to_liq {
                        ev.violation("no_fee_op", "Liquidate,partial_fund_gets_more_than_half", json!({"vault_to_insurance_fund": to_fund.to_string(), "vault_to_liquidator": to_liq.to_string()}));
                    }
                }
            }
        }
        _ => {}
    }
}
