//! C16 - after a liquidation, no second position action in the same block.
use serde_json::json;

use crate::refmodel::mul_div;
use crate::run::{Ctx, Ev, Runner};
use crate::types::*;
use crate::world::World;

fn restricted(ctx_height: u64, liq_block: u64, pos_block: Option<u64>) -> bool {
    liq_block == ctx_height && pos_block == Some(ctx_height)
}

pub fn step(ctx: &Ctx, w: &World, ev: &mut Ev) {
    if w.cfg.kind != WorldKind::Standard {
        return;
    }
    let v = match &ctx.step.op {
        Op::Open { vamm, .. } | Op::Close { vamm, .. } => *vamm,
        _ => return,
    };
    let h = ctx.post.height;
    if ctx.model.liq_block[v] != h {
        // no liquidation on this vAMM in this block: nobody may be refused for restriction reasons
        if !ctx.out.ok && ctx.out.err.contains("Only one action allowed") {
            ev.eval(true, &("no_liq_block", ctx.step.op.kind()), || json!({"op": ctx.step.op.kind(), "error": "Only one action allowed"}));
            ev.violation("bystander_blocked", &format!("{},no_liquidation_in_block", ctx.step.op.kind()), json!({"height": h, "last_liquidation_block": ctx.model.liq_block[v]}));
        }
        return;
    }
    let actor = w.resolve(&ctx.step.actor);
    let pb = ctx.model.touched.get(&(v, actor.clone())).cloned();
    let r = restricted(h, ctx.model.liq_block[v], pb);
    let kind = ctx.step.op.kind();
    ev.eval(true, &("main", r, kind, ctx.out.ok), || json!({"where": "main_history", "op": kind, "actor": actor, "restricted": r, "accepted": ctx.out.ok, "height": h}));
    ev.count(if r { "main/restricted_attempt" } else { "main/unrestricted_attempt" });
    if r && ctx.out.ok {
        ev.violation("restricted_succeeded", &format!("{},main", kind), json!({"actor": actor, "height": h, "position_block": pb}));
    }
    if r && !ctx.out.ok && ctx.pre.dump != ctx.post.dump {
        ev.violation("restricted_succeeded", &format!("{},state_changed", kind), json!({"actor": actor}));
    }
    if !r && !ctx.out.ok && ctx.out.err.contains("Only one action allowed") {
        ev.violation("bystander_blocked", &format!("{},main", kind), json!({"actor": actor, "height": h, "position_block": pb}));
    }
}

/// probes for every trader on every vAMM that saw a liquidation in the current block
pub fn probe(r: &mut Runner) {
    if r.w.cfg.kind != WorldKind::Standard {
        return;
    }
    let h = r.obs.height;
    let d = r.w.d;
    for v in 0..r.w.addrs.vamms.len() {
        if r.model.liq_block[v] != h {
            continue;
        }
        let vo = r.obs.vamms[v].clone();
        if !vo.ok {
            continue;
        }
        let mut traders = r.w.trading_accounts();
        // accounts that never traded but whose address, appended to this vAMM's, reads like another vAMM's address
        // followed by a real trader's (a storage key derived from the bare concatenation makes the two share whatever is
        // kept per (vAMM, trader)): they are bystanders like any other
        let va = r.w.addrs.vamms[v].clone();
        for (j, vb) in r.w.addrs.vamms.iter().enumerate() {
            if j != v && vb.len() > va.len() && vb.starts_with(va.as_str()) {
                let suffix = &vb[va.len()..];
                for t in r.w.trading_accounts() {
                    let sh = format!("{}{}", suffix, t);
                    if !traders.contains(&sh) {
                        traders.push(sh);
                    }
                }
            }
        }
        for t in traders {
            let pos = r.obs.position(v, &t).cloned();
            let touched = r.model.touched.get(&(v, t.clone())).cloned();
            let is_r = restricted(h, r.model.liq_block[v], touched);
            // a small trade that would normally be accepted
            let lev = d;
            let n = (vo.q / 10_000).max(1000);
            let margin = mul_div(n, d, lev).unwrap_or(n).max(1);
            let side = match &pos {
                Some(p) if p.size < 0 => Side::Sell,
                _ => Side::Buy,
            };
            let open = Op::Open { vamm: v, side, margin, leverage: lev, limit: 0 };
            let funds = crate::gen::native_funds(r, &t, &open);
            let mut ops = vec![(open, funds)];
            if pos.as_ref().map(|p| p.size != 0).unwrap_or(false) {
                ops.push((Op::Close { vamm: v, limit: 0 }, 0));
            }
            for (op, f) in ops {
                let tt = t.clone();
                let o2 = op.clone();
                let pre_dump = r.w.dump();
                let (out, post_dump) = r.fork(|w| {
                    let out = w.exec(&tt, &o2, f, None);
                    let dmp = w.dump();
                    (out, dmp)
                });
                let rel = if pos.is_none() { "bystander_no_position" } else if is_r { "touched_this_block" } else { "position_not_touched_this_block" };
                r.ev.eval(true, &("probe", is_r, op.kind(), rel, out.ok), || json!({"where": "fork", "op": op.kind(), "actor": t, "restricted": is_r, "accepted": out.ok, "height": h}));
                r.ev.count(if is_r { "probe/restricted" } else { "probe/unrestricted" });
                if is_r {
                    if out.ok {
                        r.ev.violation("restricted_succeeded", &format!("{},probe", op.kind()), json!({"actor": t, "height": h, "last_trade_height": touched}));
                    } else if pre_dump != post_dump {
                        r.ev.violation("restricted_succeeded", &format!("{},state_changed", op.kind()), json!({"actor": t}));
                    }
                } else if !out.ok && out.err.contains("Only one action allowed") {
                    r.ev.violation("bystander_blocked", &format!("{},probe,{}", op.kind(), rel), json!({"actor": t, "height": h, "last_trade_height": touched, "stored_block_number": pos.as_ref().map(|p| p.block)}));
                } else if out.ok {
                    r.ev.count("probe/unrestricted_accepted");
                } else if matches!(op, Op::Open { .. }) {
                    // refused for some other stated reason. Whatever the words, an account whose position was not
                    // touched in this block must not be refused BECAUSE OF the liquidation: where nothing else the
                    // liquidation changed can matter to a small order (no price band, no caps, market open and
                    // registered, engine not paused), the same order is tried on the chain as it was just before the
                    // liquidation of this very step - accepted there and refused here means the liquidation did it
                    // (an account that already holds a position is left out: the price the liquidation moved can
                    // legitimately fail the margin check of its increased position)
                    let benign = pos.is_none() && vo.fluct == 0 && vo.oi_cap == 0 && vo.holding_cap == 0 && vo.open && vo.registered && !r.model.paused;
                    let snap = match &r.pre_liq {
                        Some((i, s)) if *i == r.steps_done && benign => Some(s.clone()),
                        _ => None,
                    };
                    if let Some(snap) = snap {
                        let tt = t.clone();
                        let o3 = op.clone();
                        let before = r.fork(|w| {
                            w.restore(&snap);
                            w.exec(&tt, &o3, f, None)
                        });
                        r.ev.count("probe/differential_before_liquidation");
                        if before.ok {
                            r.ev.violation("bystander_blocked", &format!("{},probe_differential,{}", op.kind(), rel), json!({"actor": t, "height": h, "refused_after_liquidation_with": crate::run::tail(&out.err, 120), "accepted_before_liquidation": true}));
                        }
                    }
                }
            }
        }
    }
}
