//! C10 - one account's transaction never alters another trader's position; queries never change state.
use serde_json::json;

use crate::run::{Ctx, Ev, Runner};
use crate::types::*;
use crate::world::World;

pub fn step(ctx: &Ctx, w: &World, ev: &mut Ev) {
    if w.cfg.kind != WorldKind::Standard {
        return;
    }
    let sender = w.resolve(&ctx.step.actor);
    let kind = ctx.step.op.kind();
    let exempt: Option<(usize, String)> = match &ctx.step.op {
        Op::Liquidate { vamm, trader, .. } => Some((*vamm, w.resolve(trader))),
        _ => None,
    };
    let mut keys: Vec<&(usize, String)> = ctx.pre.pos.keys().collect();
    for k in ctx.post.pos.keys() {
        if !ctx.pre.pos.contains_key(k) {
            keys.push(k);
        }
    }
    let mut foreign = 0usize;
    for k in keys {
        if k.1 == sender {
            continue;
        }
        if exempt.as_ref().map(|e| e.0 == k.0 && e.1 == k.1).unwrap_or(false) {
            continue;
        }
        let (a, b) = (ctx.pre.pos.get(k), ctx.post.pos.get(k));
        if a.is_some() {
            foreign += 1;
        }
        if a != b {
            let field = match (a, b) {
                (None, Some(_)) => "created",
                (Some(_), None) => "removed",
                (Some(x), Some(y)) => {
                    if x.size != y.size {
                        "size"
                    } else if x.margin != y.margin {
                        "margin"
                    } else if x.notional != y.notional {
                        "notional"
                    } else if x.checkpoint != y.checkpoint {
                        "checkpoint"
                    } else if x.block != y.block {
                        "block_number"
                    } else {
                        "direction"
                    }
                }
                _ => "none",
            };
            let rel = if matches!(ctx.step.op, Op::Liquidate { .. }) { "liquidation" } else { "other" };
            ev.violation(
                "foreign_position_changed",
                &format!("{},{},{}", kind, field, rel),
                json!({"vamm": k.0, "trader": k.1, "sender": sender, "pre": format!("{:?}", a), "post": format!("{:?}", b)}),
            );
        }
    }
    ev.eval(foreign > 0, &(kind, foreign.min(5), ctx.out.ok, exempt.is_some()), || {
        json!({"op": kind, "sender": sender, "foreign_positions": foreign, "ok": ctx.out.ok})
    });
}

/// the whole query surface, issued between steps; the dump must not move
pub fn queries(r: &mut Runner) {
    let before = r.w.dump();
    let w = &r.w;
    let mut n = 0u64;
    let accts = crate::obs::position_accounts(w);
    let e = w.addrs.engine.clone();
    for m in [json!({"config": {}}), json!({"state": {}}), json!({"get_pauser": {}}), json!({"get_whitelist": {}})] {
        let _ = w.q(&e, m);
        n += 1;
    }
    for (i, va) in w.addrs.vamms.iter().enumerate() {
        let _ = i;
        for m in [
            json!({"config": {}}),
            json!({"state": {}}),
            json!({"get_owner": {}}),
            json!({"spot_price": {}}),
            json!({"twap_price": {"interval": 900}}),
            json!({"underlying_price": {}}),
            json!({"underlying_twap_price": {"interval": 900}}),
            json!({"is_over_spread_limit": {}}),
            json!({"calc_fee": {"quote_asset_amount": "1000000"}}),
            json!({"input_price": {"direction": "add_to_amm", "amount": "1000000"}}),
            json!({"output_price": {"direction": "add_to_amm", "amount": "1000"}}),
            json!({"input_amount": {"direction": "remove_from_amm", "amount": "1000000"}}),
            json!({"output_amount": {"direction": "remove_from_amm", "amount": "1000"}}),
            json!({"input_twap": {"direction": "add_to_amm", "amount": "1000000"}}),
            json!({"output_twap": {"direction": "add_to_amm", "amount": "1000"}}),
            json!({"is_over_fluctuation_limit": {"direction": "add_to_amm", "base_asset_amount": "1000"}}),
        ] {
            let _ = w.q(va, m);
            n += 1;
        }
        let _ = w.q(&e, json!({"cumulative_premium_fraction": {"vamm": va}}));
        for t in accts.iter() {
            for m in [
                json!({"position": {"vamm": va, "trader": t}}),
                json!({"margin_ratio": {"vamm": va, "trader": t}}),
                json!({"free_collateral": {"vamm": va, "trader": t}}),
                json!({"unrealized_pnl": {"vamm": va, "trader": t, "calc_option": "spot_price"}}),
                json!({"unrealized_pnl": {"vamm": va, "trader": t, "calc_option": "twap"}}),
                json!({"position_with_funding_payment": {"vamm": va, "trader": t}}),
            ] {
                let _ = w.q(&e, m);
                n += 1;
            }
        }
    }
    for t in accts.iter() {
        let _ = w.q(&e, json!({"all_positions": {"trader": t}}));
        let _ = w.q(&e, json!({"balance_with_funding_payment": {"trader": t}}));
        let _ = w.q(&e, json!({"is_whitelisted": {"address": t}}));
        n += 3;
    }
    for m in [json!({"config": {}}), json!({"get_owner": {}}), json!({"get_all_vamm": {"limit": null}}), json!({"get_all_vamm": {"limit": 1}}), json!({"get_all_vamm_status": {"limit": null}})] {
        let _ = w.q(&w.addrs.insurance_fund, m);
        n += 1;
    }
    for va in w.addrs.vamms.iter().cloned().chain(std::iter::once(w.addrs.engine.clone())) {
        // registered, unregistered and not a vAMM at all
        let _ = w.q(&w.addrs.insurance_fund, json!({"is_vamm": {"vamm": va}}));
        let _ = w.q(&w.addrs.insurance_fund, json!({"get_vamm_status": {"vamm": va}}));
        n += 2;
    }
    for m in [json!({"config": {}}), json!({"get_owner": {}}), json!({"get_token_length": {}}), json!({"get_token_list": {"limit": null}}), json!({"is_token": {"token": w.resolve("@token")}}), json!({"is_token": {"token": "nosuchtoken"}})] {
        let _ = w.q(&w.addrs.fee_pool, m);
        n += 1;
    }
    for k in crate::world::KEYS.iter().take(w.addrs.vamms.len().max(1)).cloned().chain(std::iter::once("NOSUCHKEY")) {
        for m in [
            json!({"get_price": {"key": k}}),
            json!({"get_twap_price": {"key": k, "interval": 900}}),
            json!({"get_twap_price": {"key": k, "interval": 0}}),
            json!({"get_twap_price": {"key": k, "interval": 4000000000u64}}),
            json!({"get_previous_price": {"key": k, "num_round_back": "1"}}),
            json!({"get_previous_price": {"key": k, "num_round_back": "1000"}}),
        ] {
            let _ = w.q(&w.addrs.pricefeed, m);
            n += 1;
        }
    }
    for m in [json!({"config": {}}), json!({"get_owner": {}})] {
        let _ = w.q(&w.addrs.pricefeed, m);
        n += 1;
    }
    let after = r.w.dump();
    r.ev.add("queries_issued", n);
    r.ev.eval(true, &("queries", n), || json!({"queries_issued": n, "dump_keys": before.len()}));
    if before != after {
        r.ev.violation("query_changed_state", "any", json!({"queries": n}));
    }
}
