//! C20 - risk caps and configuration bounds hold under any update sequence.
use serde_json::json;

use super::engine_refs::*;
use crate::run::{pq_bool, Ctx, Ev};
use crate::types::*;
use crate::world::World;

pub fn step(ctx: &Ctx, w: &World, ev: &mut Ev) {
    if w.cfg.kind != WorldKind::Standard {
        return;
    }
    let d = w.d;
    // configuration bounds: checked after every transaction that changed a configuration (whoever sent it)
    if let (Some(a), Some(b)) = (&ctx.pre.eng, &ctx.post.eng) {
        let changed = a != b;
        if let Op::EngineConfig { initial, maintenance, partial, liq_fee, .. } = &ctx.step.op {
            let fields = (initial.is_some(), maintenance.is_some(), partial.is_some(), liq_fee.is_some());
            let boundary = [initial, maintenance, partial, liq_fee].iter().any(|x| matches!(x, Some(v) if *v == 0 || *v == 1 || *v == d || *v == d + 1 || *v + 1 == d));
            ev.eval(boundary || (fields.0 && fields.1), &("engine_cfg", fields, ctx.out.ok, boundary), || json!({"update": serde_json::to_value(&ctx.step.op).unwrap_or_default(), "accepted": ctx.out.ok}));
            if fields.0 && fields.1 {
                ev.count("combined_margin_ratio_update");
            }
        }
        if changed || matches!(ctx.step.op, Op::EngineConfig { .. }) {
            for (name, val) in [("initial_margin_ratio", b.initial), ("maintenance_margin_ratio", b.maintenance), ("partial_liquidation_ratio", b.partial), ("liquidation_fee", b.liq_fee)] {
                if val > d {
                    ev.violation("ratio_range", &format!("engine,{}", name), json!({"field": name, "value": val.to_string(), "one": d.to_string()}));
                }
            }
            if b.maintenance > b.initial {
                let combined = matches!(&ctx.step.op, Op::EngineConfig { initial: Some(_), maintenance: Some(_), .. });
                ev.violation("maint_le_init", if combined { "combined" } else { "single" }, json!({"initial": b.initial.to_string(), "maintenance": b.maintenance.to_string()}));
            }
        }
    }
    for i in 0..ctx.post.vamms.len() {
        let (a, b) = (&ctx.pre.vamms[i], &ctx.post.vamms[i]);
        if !b.ok {
            continue;
        }
        let is_cfg = matches!(&ctx.step.op, Op::VammConfig { vamm, .. } if *vamm == i);
        if is_cfg {
            if let Op::VammConfig { toll, spread, fluct, twap_interval, holding_cap, oi_cap, .. } = &ctx.step.op {
                let vd = b.decimals.max(1);
                let boundary = [toll, spread, fluct].iter().any(|x| matches!(x, Some(v) if *v == 0 || *v == 1 || *v == vd || *v == vd + 1 || *v + 1 == vd)) || matches!(twap_interval, Some(t) if [59u64, 60, 61, 604800, 604801].contains(t));
                ev.eval(boundary || holding_cap.is_some() || oi_cap.is_some(), &("vamm_cfg", toll.is_some(), spread.is_some(), fluct.is_some(), twap_interval.is_some(), ctx.out.ok, boundary), || json!({"update": serde_json::to_value(&ctx.step.op).unwrap_or_default(), "accepted": ctx.out.ok}));
            }
        }
        if is_cfg || a.toll != b.toll || a.spread != b.spread || a.fluct != b.fluct || a.twap_interval != b.twap_interval {
            let vd = b.decimals.max(1);
            for (name, val) in [("toll_ratio", b.toll), ("spread_ratio", b.spread), ("fluctuation_limit_ratio", b.fluct)] {
                if val > vd {
                    ev.violation("ratio_range", &format!("vamm,{}", name), json!({"field": name, "value": val.to_string(), "one": vd.to_string()}));
                }
            }
            if b.twap_interval < 60 || b.twap_interval > 604800 {
                ev.violation("interval_range", if b.twap_interval < 60 { "below_minute" } else { "above_week" }, json!({"interval": b.twap_interval}));
            }
        }
        // registry: a registered vAMM has the engine's decimals
        if b.registered {
            if let Some(e) = &ctx.post.eng {
                if b.decimals != e.decimals {
                    ev.violation("decimals_match", "registered", json!({"vamm": i, "vamm_decimals": b.decimals.to_string(), "engine_decimals": e.decimals.to_string()}));
                }
            }
        }
    }
    if let Op::AddVamm { vamm } = &ctx.step.op {
        let addr = w.resolve(vamm);
        if let Some(i) = w.addrs.vamms.iter().position(|x| *x == addr) {
            let mism = ctx.post.vamms[i].decimals != ctx.post.eng.as_ref().map(|e| e.decimals).unwrap_or(0);
            ev.eval(mism, &("add_vamm", mism, ctx.out.ok), || json!({"add_vamm": i, "decimals_mismatch": mism, "accepted": ctx.out.ok}));
            if mism {
                ev.count("add_vamm_with_mismatched_decimals");
            }
        }
    }
    // caps: after a successful position-increasing trade by a non-whitelisted trader
    if let Op::Open { vamm, .. } = &ctx.step.op {
        if !ctx.out.ok {
            return;
        }
        let v = *vamm;
        let vo = &ctx.pre.vamms[v];
        if vo.oi_cap == 0 && vo.holding_cap == 0 {
            return;
        }
        let actor = w.resolve(&ctx.step.actor);
        // whitelisted = added by an accepted AddWhitelist and not removed since (the engine's own answer is only counted)
        let wl = ctx.model.whitelist.contains(&actor);
        if pq_bool(ctx.preq, "whitelisted").map(|q| q != wl).unwrap_or(false) {
            ev.count("whitelist_query_differs_from_history");
        }
        let class = match classify_open(ctx, w) {
            Some(c) => c,
            None => return,
        };
        let before = ctx.pre.position(v, &actor).map(|p| p.size).unwrap_or(0);
        let after = ctx.post.position(v, &actor).map(|p| p.size).unwrap_or(0);
        let increasing = after.unsigned_abs() > before.unsigned_abs() || (before != 0 && after != 0 && before.signum() != after.signum());
        let oi = ctx.post.eng.as_ref().map(|e| e.oi).unwrap_or(0);
        let near = (vo.oi_cap != 0 && oi * 10 >= vo.oi_cap * 9) || (vo.holding_cap != 0 && after.unsigned_abs() * 10 >= vo.holding_cap * 9);
        ev.eval(true, &("cap_trade", class.kind, wl, near, vo.oi_cap != 0, vo.holding_cap != 0), || {
            json!({"open": class.kind.s(), "whitelisted": wl, "open_interest": oi.to_string(), "oi_cap": vo.oi_cap.to_string(), "size_after": after.to_string(), "holding_cap": vo.holding_cap.to_string()})
        });
        if wl {
            ev.count("cap_trade_by_whitelisted");
            return;
        }
        if !increasing {
            return;
        }
        if vo.oi_cap != 0 && oi > vo.oi_cap {
            ev.violation("oi_cap", class.kind.s(), json!({"open_interest": oi.to_string(), "cap": vo.oi_cap.to_string()}));
        }
        if vo.holding_cap != 0 && after.unsigned_abs() > vo.holding_cap {
            ev.violation("holding_cap", class.kind.s(), json!({"size": after.to_string(), "cap": vo.holding_cap.to_string()}));
        }
    }
}

/// "whitelisted traders are exempt": an OpenPosition of a whitelisted trader that was refused on a vAMM with caps is
/// repeated in a fork of the unchanged state with both caps switched off by the vAMM's owner - if it then succeeds, the
/// caps alone refused it.
pub fn exempt_probe(r: &mut crate::run::Runner, step: &Step) {
    let out = match &r.last {
        Some((o, _, _)) => o.clone(),
        None => return,
    };
    if out.ok || r.w.cfg.kind != WorldKind::Standard {
        return;
    }
    let v = match &step.op {
        Op::Open { vamm, .. } => *vamm,
        _ => return,
    };
    let actor = r.w.resolve(&step.actor);
    let vo = match r.obs.vamms.get(v) {
        Some(x) if x.ok && (x.oi_cap != 0 || x.holding_cap != 0) => x.clone(),
        _ => return,
    };
    if !r.model.whitelist.contains(&actor) {
        return;
    }
    let (a, op, f) = (step.actor.clone(), step.op.clone(), step.funds);
    let owner = vo.owner.clone();
    let alt = r.fork(|w| {
        let c = w.exec(&owner, &Op::VammConfig { vamm: v, holding_cap: Some(0), oi_cap: Some(0), toll: None, spread: None, fluct: None, margin_engine: None, insurance_fund: None, pricefeed: None, twap_interval: None }, 0, None);
        if !c.ok {
            return None;
        }
        Some(w.exec(&a, &op, f, None))
    });
    let alt = match alt {
        Some(x) => x,
        None => return,
    };
    r.ev.eval(true, &("whitelisted_refused", alt.ok), || json!({"whitelisted_trader_refused": actor, "accepted_with_caps_off": alt.ok, "oi_cap": vo.oi_cap.to_string(), "holding_cap": vo.holding_cap.to_string()}));
    if alt.ok {
        r.ev.violation("whitelisted_blocked", if vo.holding_cap != 0 && vo.oi_cap != 0 { "both_caps" } else if vo.holding_cap != 0 { "holding_cap" } else { "oi_cap" }, json!({"trader": actor, "error_with_caps": crate::run::tail(&out.err, 160)}));
    }
}
