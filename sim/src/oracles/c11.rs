//! C11 - funding settles on schedule, exactly, and is charged once per position.
use serde_json::json;

use super::engine_refs::*;
use crate::refmodel::*;
use crate::run::{pq_field_i, pq_u, Ctx, Ev};
use crate::types::*;
use crate::world::World;

fn pay_class(p: i128, d: U) -> &'static str {
    let m = p.unsigned_abs();
    if m == 0 {
        "zero"
    } else if m < 1000 {
        "tiny"
    } else if m < d {
        "sub_unit"
    } else {
        "large"
    }
}

pub fn step(ctx: &Ctx, w: &World, ev: &mut Ev) {
    if w.cfg.kind != WorldKind::Standard {
        return;
    }
    let d = w.d;
    let engine = w.addrs.engine.clone();
    let ifund = w.addrs.insurance_fund.clone();
    let actor = w.resolve(&ctx.step.actor);
    // the engine's cumulative premium fraction is the sum of the settlement premiums of the history - it moves in a
    // settlement and nowhere else (reference: the harness's own running sum, kept by the runner)
    for (i, vo) in ctx.post.vamms.iter().enumerate() {
        if let Some(Some(c)) = ctx.model.cum_ref.get(i) {
            let key = format!("cum{}", i);
            if vo.ok && vo.cum != *c && !ev.poisoned.contains(&key) {
                ev.poisoned.insert(key);
                let settle = matches!(&ctx.step.op, Op::PayFunding { vamm } if *vamm == i);
                ev.violation("cumulative_ne_history", if settle { "settlement" } else { ctx.step.op.kind() }, json!({"vamm": i, "engine_cumulative_fraction": vo.cum.to_string(), "sum_of_settlement_premiums": c.to_string(), "before_this_step": ctx.pre.vamms[i].cum.to_string()}));
            }
        }
    }
    // funding owed by a position, against that reference (the engine's own figure when no reference is available)
    let owed = |obs: &crate::obs::Obs, v: usize, who: &str, d: U| -> Option<i128> {
        match ctx.model.cum_ref.get(v).cloned().flatten() {
            Some(c) if !ev_poisoned_cum(ctx, v) => {
                let p = obs.position(v, who)?;
                funding_owed(c, p.checkpoint, p.size, d)
            }
            _ => super::engine_refs::owed(obs, v, who, d),
        }
    };
    match &ctx.step.op {
        Op::PayFunding { vamm } => {
            let v = *vamm;
            let (a, b) = (&ctx.pre.vamms[v], &ctx.post.vamms[v]);
            let timing = if ctx.post.time < a.next_funding { "early" } else if ctx.post.time == a.next_funding { "on_time" } else { "late" };
            let near = (ctx.post.time as i128 - a.next_funding as i128).unsigned_abs() <= a.funding_period as u128;
            if !ctx.out.ok {
                ev.eval(near, &("attempt", timing, "rejected"), || json!({"pay_funding": timing, "now": ctx.post.time, "next_funding_time": a.next_funding, "accepted": false}));
                return;
            }
            ev.count(&format!("settlement/{}", timing));
            if ctx.post.time < a.next_funding {
                ev.violation("early_settle", "early", json!({"now": ctx.post.time, "next_funding_time": a.next_funding}));
            }
            let (tw, ut) = match (pq_u(ctx.preq, "twap"), pq_u(ctx.preq, "utwap")) {
                (Some(x), Some(y)) => (x, y),
                _ => {
                    ev.count("twap_unavailable");
                    return;
                }
            };
            // the oracle TWAP that enters the premium is a time-weighted average of submitted prices: with the
            // repository's own feed it lies between the lowest and the highest price in effect for a positive stretch
            // of the vAMM's interval (the harness's own record of the accepted submissions)
            if w.cfg.oracle == OracleKind::Real {
                if let Some(subs) = ctx.model.feed.get(v) {
                    if let Some((lo, hi, _)) = super::c18::feed_bounds(subs, ctx.post.time, a.twap_interval) {
                        if ut < lo || ut > hi {
                            ev.violation("oracle_twap_bounds", if ut > hi { "above" } else { "below" }, json!({"oracle_twap": ut.to_string(), "min": lo.to_string(), "max": hi.to_string(), "interval": a.twap_interval, "now": ctx.post.time, "submissions": subs.iter().rev().take(5).map(|x| json!([x.0, x.1.to_string()])).collect::<Vec<_>>()}));
                        }
                    }
                }
            }
            let premium = match smul_div(tw as i128 - ut as i128, a.funding_period as i128, 86400) {
                Some(x) => x,
                None => return,
            };
            let dcum = b.cum - a.cum;
            let p = match smul_div(a.size, premium, d as i128) {
                Some(x) => x,
                None => return,
            };
            ev.eval(true, &("attempt", timing, sign(premium), pay_class(p, d), sign(a.size)), || {
                json!({"pay_funding": timing, "vamm_twap": tw.to_string(), "oracle_twap": ut.to_string(), "premium_fraction": premium.to_string(), "net_position": a.size.to_string(), "payment": p.to_string()})
            });
            if dcum != premium {
                ev.violation("premium_exact", sign(premium), json!({"cumulative_delta": dcum.to_string(), "expected": premium.to_string(), "vamm_twap": tw.to_string(), "oracle_twap": ut.to_string(), "period": a.funding_period}));
            }
            // "at least half a funding period later", on the contracts' whole-second clock: 2 x (next - now) >= period
            if b.next_funding < ctx.post.time || 2 * (b.next_funding - ctx.post.time) < a.funding_period {
                ev.violation("next_time", timing, json!({"next_funding_time": b.next_funding, "now": ctx.post.time, "period": a.funding_period}));
            }
            let to_if = ctx.sent(&engine, &ifund);
            let from_if = ctx.sent(&ifund, &engine);
            let vault = ctx.pre.bal(&engine);
            let (exp_to, exp_from) = if p > 0 { ((p as u128).min(vault), 0) } else if p < 0 { (0, p.unsigned_abs()) } else { (0, 0) };
            if p > 0 && (p as u128) > vault {
                ev.count("funding_payment_capped_by_vault");
            }
            if to_if != exp_to || from_if != exp_from {
                ev.violation("payment_exact", &format!("{},{}", sign(p), pay_class(p, d)), json!({"payment": p.to_string(), "vault_to_insurance_fund": to_if.to_string(), "insurance_fund_to_vault": from_if.to_string(), "vault_balance": vault.to_string()}));
            }
        }
        Op::Open { vamm, leverage, .. } => {
            if !ctx.out.ok {
                return;
            }
            let v = *vamm;
            let class = match classify_open(ctx, w) {
                Some(c) => c,
                None => return,
            };
            let pos = match &class.pos {
                Some(p) if p.size != 0 => p.clone(),
                _ => return,
            };
            let f = match owed(ctx.pre, v, &actor, d) {
                Some(x) => x,
                None => return,
            };
            let cum = ctx.post.vamms[v].cum;
            let kind = class.kind;
            ev.eval(f != 0, &("event", kind, sign(f)), || json!({"event": kind.s(), "funding_owed": f.to_string(), "margin": pos.margin.to_string()}));
            if f != 0 {
                ev.count(&format!("event_with_funding/{}", kind.s()));
            }
            let post = ctx.post.position(v, &actor).cloned();
            let spot_pnl = pq_field_i(ctx.preq, "pnl_spot", "unrealized_pnl").unwrap_or(0);
            match kind {
                OpenKind::Increase | OpenKind::Reduce => {
                    let p2 = match post {
                        Some(p) => p,
                        None => return,
                    };
                    if p2.size != 0 && p2.checkpoint != cum {
                        ev.violation("checkpoint_moved", kind.s(), json!({"checkpoint": p2.checkpoint.to_string(), "cumulative": cum.to_string()}));
                    }
                    let delta = if kind == OpenKind::Increase {
                        mul_div(class.n, d, (*leverage).max(1)).unwrap_or(0) as i128
                    } else {
                        smul_div(spot_pnl, base_moved(ctx, v) as i128, pos.size.abs()).unwrap_or(0)
                    };
                    // no floor at zero here: a margin that cannot bear the charge means part of it is not charged at all
                    let exp = pos.margin as i128 + delta - f;
                    if exp < 0 && pos.margin as i128 + delta < 0 && p2.margin == 0 {
                        // a realised loss beyond the margin (not a funding matter): the engine floors the margin at zero
                        ev.count("reduce_with_realised_loss_beyond_margin");
                    } else if p2.margin as i128 != exp {
                        let diff = p2.margin as i128 - exp;
                        let shape = if exp < 0 && p2.margin == 0 { "shortfall_forgiven" } else if diff == f { "diff_eq_funding" } else if diff == -f { "charged_twice" } else { "other" };
                        ev.violation("charge_exact", &format!("{},{},{}", kind.s(), sign(f), shape), json!({"margin_pre": pos.margin.to_string(), "margin_post": p2.margin.to_string(), "expected": exp.to_string(), "funding_owed": f.to_string()}));
                    }
                }
                OpenKind::Reverse | OpenKind::DustReverse => {
                    if let Some(p2) = &post {
                        if p2.size != 0 && p2.checkpoint != cum {
                            ev.violation("checkpoint_moved", kind.s(), json!({"checkpoint": p2.checkpoint.to_string(), "cumulative": cum.to_string()}));
                        }
                    }
                    // settlement of the old position: what the trader pays in total must account for the funding owed.
                    // total paid = new margin - old equity + fees (fees read from the ledger's inflow to the two pools),
                    // the same in cw20 and native worlds
                    let realised = pnl(pos.dir, class.q_close, pos.notional).unwrap_or(0);
                    let equity = pos.margin as i128 + realised - f;
                    let fees = ctx.inflow(&ifund) as i128 + ctx.inflow(&ctx.model.fee_pool_ref.clone().unwrap_or_else(|| w.addrs.fee_pool.clone())) as i128;
                    let paid_total = -ctx.delta(&actor);
                    let new_margin = post.as_ref().map(|p| p.margin as i128).unwrap_or(0);
                    if equity < 0 {
                        // the old position owes more than its margin: the reversing trader pays that as well
                        ev.count("reverse_with_negative_equity");
                    }
                    let exp = new_margin - equity + fees;
                    if paid_total != exp {
                        let diff = exp - paid_total;
                        let shape = if diff == f { "funding_not_charged" } else if pos.margin as i128 + realised < 0 { "negative_equity_before_funding_paid_as_magnitude" } else { "other" };
                        ev.violation("charge_exact", &format!("{},{},{}", kind.s(), sign(f), shape), json!({"trader_paid_total": paid_total.to_string(), "expected": exp.to_string(), "old_margin": pos.margin.to_string(), "realised_pnl": realised.to_string(), "funding_owed": f.to_string(), "new_margin": new_margin.to_string(), "fees": fees.to_string()}));
                    }
                }
                OpenKind::Fresh => {}
            }
        }
        Op::Close { vamm, .. } => {
            if !ctx.out.ok {
                return;
            }
            let v = *vamm;
            let pos = match ctx.pre.position(v, &actor) {
                Some(p) if p.size != 0 => p.clone(),
                _ => return,
            };
            let f = match owed(ctx.pre, v, &actor, d) {
                Some(x) => x,
                None => return,
            };
            let moved = ctx.post.vamms[v].size - ctx.pre.vamms[v].size;
            let whole = moved == -pos.size;
            let kind = if whole { "whole_close" } else { "partial_close" };
            ev.eval(f != 0, &("event", kind, sign(f)), || json!({"event": kind, "funding_owed": f.to_string(), "margin": pos.margin.to_string()}));
            if f != 0 {
                ev.count(&format!("event_with_funding/{}", kind));
            }
            if whole {
                let realised = pnl(pos.dir, quote_moved(ctx, v), pos.notional).unwrap_or(0);
                let e = pos.margin as i128 + realised - f;
                let paid = ctx.sent(&engine, &actor) as i128;
                if e >= 0 && paid != e {
                    let diff = paid - e;
                    let shape = if diff == f { "funding_not_charged" } else if diff == -f { "charged_twice" } else { "other" };
                    ev.violation("charge_exact", &format!("{},{},{}", kind, sign(f), shape), json!({"paid": paid.to_string(), "expected": e.to_string(), "funding_owed": f.to_string()}));
                }
            } else if let Some(p2) = ctx.post.position(v, &actor) {
                let spot_pnl = pq_field_i(ctx.preq, "pnl_spot", "unrealized_pnl").unwrap_or(0);
                let r = smul_div(spot_pnl, base_moved(ctx, v) as i128, pos.size.abs()).unwrap_or(0);
                let exp = pos.margin as i128 + r - f;
                if p2.margin as i128 != exp {
                    let diff = p2.margin as i128 - exp;
                    let shape = if diff == f { "funding_not_charged" } else if diff == -f { "charged_twice" } else { "other" };
                    ev.violation("charge_exact", &format!("{},{},{}", kind, sign(f), shape), json!({"margin_post": p2.margin.to_string(), "expected": exp.to_string(), "funding_owed": f.to_string()}));
                }
                if p2.checkpoint != ctx.post.vamms[v].cum {
                    ev.violation("checkpoint_moved", kind, json!({"checkpoint": p2.checkpoint.to_string(), "cumulative": ctx.post.vamms[v].cum.to_string()}));
                }
            }
        }
        Op::Withdraw { vamm, amount } => {
            if !ctx.out.ok {
                return;
            }
            let v = *vamm;
            let pos = match ctx.pre.position(v, &actor) {
                Some(p) => p.clone(),
                None => return,
            };
            let f = match owed(ctx.pre, v, &actor, d) {
                Some(x) => x,
                None => return,
            };
            ev.eval(f != 0, &("event", "withdraw", sign(f)), || json!({"event": "withdraw", "funding_owed": f.to_string(), "margin": pos.margin.to_string(), "amount": amount.to_string()}));
            if f != 0 {
                ev.count("event_with_funding/withdraw");
            }
            if let Some(p2) = ctx.post.position(v, &actor) {
                let exp = pos.margin as i128 - *amount as i128 - f;
                if p2.margin as i128 != exp {
                    let diff = p2.margin as i128 - exp;
                    let shape = if diff == f { "funding_not_charged" } else if diff == -f { "charged_twice" } else { "other" };
                    ev.violation("charge_exact", &format!("withdraw,{},{}", sign(f), shape), json!({"margin_post": p2.margin.to_string(), "expected": exp.to_string(), "funding_owed": f.to_string()}));
                }
                if p2.checkpoint != ctx.post.vamms[v].cum {
                    ev.violation("checkpoint_moved", "withdraw", json!({"checkpoint": p2.checkpoint.to_string(), "cumulative": ctx.post.vamms[v].cum.to_string()}));
                }
            }
        }
        Op::Deposit { vamm, .. } => {
            if !ctx.out.ok {
                return;
            }
            let v = *vamm;
            if let (Some(a), Some(b)) = (ctx.pre.position(v, &actor), ctx.post.position(v, &actor)) {
                let f = owed(ctx.pre, v, &actor, d).unwrap_or(0);
                ev.eval(f != 0, &("event", "deposit", sign(f)), || json!({"event": "deposit", "funding_owed": f.to_string()}));
                if a.checkpoint != b.checkpoint {
                    ev.violation("checkpoint_must_not_move", "deposit", json!({"pre": a.checkpoint.to_string(), "post": b.checkpoint.to_string()}));
                }
            }
        }
        Op::Liquidate { vamm, trader, .. } => {
            if !ctx.out.ok {
                return;
            }
            let v = *vamm;
            let t = w.resolve(trader);
            let pos = match ctx.pre.position(v, &t) {
                Some(p) if p.size != 0 => p.clone(),
                _ => return,
            };
            let f = match owed(ctx.pre, v, &t, d) {
                Some(x) => x,
                None => return,
            };
            match ctx.post.position(v, &t) {
                None => {
                    ev.eval(f != 0, &("event", "full_liquidation", sign(f)), || json!({"event": "full_liquidation", "funding_owed": f.to_string(), "margin": pos.margin.to_string()}));
                    if f != 0 {
                        ev.count("event_with_funding/full_liquidation");
                    }
                    let eng = ctx.pre.eng.clone().unwrap_or_default();
                    let q = quote_moved(ctx, v);
                    let half = mul_div(q, eng.liq_fee, d).unwrap_or(0) / 2;
                    let realised = pnl(pos.dir, q, pos.notional).unwrap_or(0);
                    let e = pos.margin as i128 + realised - f;
                    let exp_if = (e.max(0) - half as i128).max(0);
                    let to_if = ctx.sent(&engine, &ifund) as i128;
                    if to_if != exp_if {
                        let diff = to_if - exp_if;
                        let shape = if diff == f && e - half as i128 > 0 { "funding_not_charged" } else { "other" };
                        ev.violation("charge_exact", &format!("full_liquidation,{},{}", sign(f), shape), json!({"to_insurance_fund": to_if.to_string(), "expected": exp_if.to_string(), "funding_owed": f.to_string()}));
                    }
                    // a position liquidated under water is charged through the bad debt it leaves: what the insurance fund
                    // puts into the vault for it, net of the change of the engine's prepaid bad debt, is the debt realised
                    // - the liquidator's fee less the equity (funding owed included). A realised debt that is off by
                    // exactly the funding owed means the charge was left out (or made twice).
                    if f != 0 {
                        if let (Some(a), Some(b)) = (&ctx.pre.eng, &ctx.post.eng) {
                            let realised_debt = ctx.sent(&ifund, &engine) as i128 - (b.bad_debt as i128 - a.bad_debt as i128);
                            let exp_debt = (half as i128 - e).max(0);
                            let diff = realised_debt - exp_debt;
                            if exp_debt > 0 || realised_debt > 0 {
                                ev.count("full_liquidation_with_bad_debt_and_funding");
                            }
                            if diff != 0 && (diff == -f || diff == f) && e < half as i128 {
                                let shape = if diff == -f { "funding_not_charged" } else { "charged_twice" };
                                ev.violation("charge_exact", &format!("full_liquidation_bad_debt,{},{}", sign(f), shape), json!({"bad_debt_realised": realised_debt.to_string(), "expected": exp_debt.to_string(), "equity": e.to_string(), "liquidator_fee": half.to_string(), "funding_owed": f.to_string()}));
                            } else if diff != 0 {
                                ev.count("full_liquidation_bad_debt_other_difference");
                            }
                        }
                    }
                }
                Some(p2) if p2.size == 0 => {
                    // the whole position was taken although a record (size 0) is left behind: the position has been
                    // "fully liquidated" and the funding it owed must have been charged - afterwards nothing can charge
                    // it any more, (cumulative - checkpoint) x 0 being 0 for ever. Reference for the outcome without
                    // funding: what the partial path leaves at a fraction of 100% (Appendix A.4), margin - |spot PnL| -
                    // the whole penalty.
                    ev.eval(f != 0, &("event", "full_liquidation_record_kept", sign(f)), || json!({"event": "full_liquidation_record_kept", "funding_owed": f.to_string(), "margin": pos.margin.to_string()}));
                    if f != 0 {
                        ev.count("event_with_funding/full_liquidation_record_kept");
                    }
                    let eng = ctx.pre.eng.clone().unwrap_or_default();
                    let q = quote_moved(ctx, v);
                    let penalty = mul_div(q, eng.liq_fee, d).unwrap_or(0);
                    if let Some(spot_pnl) = pq_field_i(ctx.preq, "pnl_spot", "unrealized_pnl") {
                        let m0 = pos.margin as i128 - spot_pnl.abs() - penalty as i128;
                        let exp = m0 - f;
                        let diff = p2.margin as i128 - exp;
                        if f != 0 && diff != 0 && diff != f && diff != -f {
                            // the reference for the outcome without funding is a classification aid, not a statement:
                            // only the two exact shapes (charge omitted, charge doubled) are reported
                            ev.count("full_liquidation_record_kept_other_difference");
                        }
                        if f != 0 && (diff == f || diff == -f) {
                            let shape = if diff == f { "funding_not_charged" } else { "charged_twice" };
                            ev.violation("charge_exact", &format!("full_liquidation_record_kept,{},{}", sign(f), shape), json!({"margin_pre": pos.margin.to_string(), "margin_left": p2.margin.to_string(), "expected": exp.to_string(), "funding_owed": f.to_string(), "spot_pnl": spot_pnl.to_string(), "penalty": penalty.to_string()}));
                        }
                    }
                }
                Some(p2) => {
                    ev.eval(f != 0, &("event", "partial_liquidation", sign(f)), || json!({"event": "partial_liquidation", "funding_owed": f.to_string()}));
                    if p2.checkpoint != pos.checkpoint {
                        ev.violation("checkpoint_must_not_move", "partial_liquidation", json!({"pre": pos.checkpoint.to_string(), "post": p2.checkpoint.to_string()}));
                    }
                }
            }
        }
        _ => {}
    }
}

/// in a settlement step the running sum already includes this step's premium; "owed before the step" must not
fn ev_poisoned_cum(ctx: &Ctx, v: usize) -> bool {
    matches!(&ctx.step.op, Op::PayFunding { vamm } if *vamm == v)
}
