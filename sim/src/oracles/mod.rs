//! One oracle per property. Each reads only public queries, balances, transfer events and the raw dump.

pub mod c01;
pub mod c02;
pub mod c03;
pub mod c08;
pub mod c10;
pub mod c07;
pub mod c09;
pub mod c14;
pub mod c16;
pub mod engine_refs;
pub mod c04;
pub mod c05;
pub mod c06;
pub mod c11;
pub mod c12;
pub mod c15;
pub mod c17;
pub mod c18;
pub mod c20;

use serde_json::json;

use crate::obs::Obs;
use crate::refmodel::mul_div;
use crate::run::{Ctx, Ev, PreQ, Runner};
use crate::types::*;
use crate::world::World;

fn needs_preq(prop: &str) -> bool {
    matches!(prop, "C04" | "C05" | "C06" | "C11" | "C12" | "C13" | "C15" | "C17" | "C20" | "C07")
}

/// Pre-state queries for the operation about to run (after the clock advance).
pub fn prequery(w: &World, obs: &Obs, step: &Step, prop: &str) -> PreQ {
    let mut p = PreQ::new();
    if !needs_preq(prop) {
        return p;
    }
    let actor = w.resolve(&step.actor);
    let d = w.d;
    let vq = |v: usize, msg: serde_json::Value| -> Result<serde_json::Value, String> {
        match w.addrs.vamms.get(v) {
            Some(a) => w.q(a, msg),
            None => Err("no vamm".into()),
        }
    };
    let eq = |msg: serde_json::Value| w.q(&w.addrs.engine, msg);
    let std = w.cfg.kind == WorldKind::Standard;
    match &step.op {
        Op::Open { vamm, side, margin, leverage, .. } if std => {
            let va = w.addrs.vamms.get(*vamm).cloned().unwrap_or_default();
            let n = mul_div(*margin, *leverage, d).unwrap_or(0);
            p.insert("n", Ok(json!(n.to_string())));
            p.insert("quote_in", vq(*vamm, json!({"input_amount": {"direction": side.dir().js(), "amount": n.to_string()}})));
            p.insert("calc_fee_n", vq(*vamm, json!({"calc_fee": {"quote_asset_amount": n.to_string()}})));
            p.insert("whitelisted", eq(json!({"is_whitelisted": {"address": actor}})));
            p.insert("pnl_spot", eq(json!({"unrealized_pnl": {"vamm": va, "trader": actor, "calc_option": "spot_price"}})));
            if let Some(pos) = obs.position(*vamm, &actor) {
                if pos.size != 0 {
                    p.insert("out_whole", vq(*vamm, json!({"output_amount": {"direction": pos.dir.js(), "amount": pos.size.unsigned_abs().to_string()}})));
                }
            }
        }
        Op::Close { vamm, .. } if std => {
            let va = w.addrs.vamms.get(*vamm).cloned().unwrap_or_default();
            if let Some(pos) = obs.position(*vamm, &actor) {
                let sz = pos.size.unsigned_abs();
                p.insert("out_whole", vq(*vamm, json!({"output_amount": {"direction": pos.dir.js(), "amount": sz.to_string()}})));
                p.insert("calc_fee_notional", vq(*vamm, json!({"calc_fee": {"quote_asset_amount": pos.notional.to_string()}})));
                p.insert("over_fluct_add", vq(*vamm, json!({"is_over_fluctuation_limit": {"direction": "add_to_amm", "base_asset_amount": sz.to_string()}})));
                p.insert("over_fluct_remove", vq(*vamm, json!({"is_over_fluctuation_limit": {"direction": "remove_from_amm", "base_asset_amount": sz.to_string()}})));
                if let Some(e) = &obs.eng {
                    let a = mul_div(sz, e.partial, d).unwrap_or(0);
                    p.insert("partial_amount", Ok(json!(a.to_string())));
                    p.insert("out_partial", vq(*vamm, json!({"output_amount": {"direction": pos.dir.js(), "amount": a.to_string()}})));
                }
                p.insert("pnl_spot", eq(json!({"unrealized_pnl": {"vamm": va, "trader": actor, "calc_option": "spot_price"}})));
            }
        }
        Op::Liquidate { vamm, trader, .. } if std => {
            let va = w.addrs.vamms.get(*vamm).cloned().unwrap_or_default();
            let t = w.resolve(trader);
            p.insert("ratio", eq(json!({"margin_ratio": {"vamm": va, "trader": t}})));
            p.insert("pnl_spot", eq(json!({"unrealized_pnl": {"vamm": va, "trader": t, "calc_option": "spot_price"}})));
            p.insert("pnl_twap", eq(json!({"unrealized_pnl": {"vamm": va, "trader": t, "calc_option": "twap"}})));
            p.insert("pnl_oracle", eq(json!({"unrealized_pnl": {"vamm": va, "trader": t, "calc_option": "oracle"}})));
            p.insert("over_spread", vq(*vamm, json!({"is_over_spread_limit": {}})));
            p.insert("underlying", vq(*vamm, json!({"underlying_price": {}})));
            // the oracle itself: the feed's latest price under the market's key, asked of the feed and not of the vAMM
            if obs.vamms.get(*vamm).map(|v| v.pricefeed == w.addrs.pricefeed).unwrap_or(false) {
                p.insert("feed_latest", w.q(&w.addrs.pricefeed, json!({"get_price": {"key": crate::world::KEYS[(*vamm).min(3)]}})).map(|x| if x.is_string() { x } else { x["price"].clone() }));
            }
            if let Some(pos) = obs.position(*vamm, &t) {
                let sz = pos.size.unsigned_abs();
                p.insert("out_whole", vq(*vamm, json!({"output_amount": {"direction": pos.dir.js(), "amount": sz.to_string()}})));
                if let Some(e) = &obs.eng {
                    let a = mul_div(sz, e.partial, d).unwrap_or(0);
                    p.insert("partial_amount", Ok(json!(a.to_string())));
                    p.insert("out_partial", vq(*vamm, json!({"output_amount": {"direction": pos.dir.js(), "amount": a.to_string()}})));
                }
            }
        }
        Op::Withdraw { vamm, .. } | Op::Deposit { vamm, .. } if std => {
            let va = w.addrs.vamms.get(*vamm).cloned().unwrap_or_default();
            p.insert("free_coll", eq(json!({"free_collateral": {"vamm": va, "trader": actor}})));
            p.insert("pnl_spot", eq(json!({"unrealized_pnl": {"vamm": va, "trader": actor, "calc_option": "spot_price"}})));
            p.insert("pnl_twap", eq(json!({"unrealized_pnl": {"vamm": va, "trader": actor, "calc_option": "twap"}})));
        }
        Op::PayFunding { vamm } | Op::SettleFunding { vamm } => {
            if let Some(v) = obs.vamms.get(*vamm) {
                p.insert("twap", vq(*vamm, json!({"twap_price": {"interval": v.twap_interval}})));
                p.insert("utwap", vq(*vamm, json!({"underlying_twap_price": {"interval": v.twap_interval}})));
            }
        }
        Op::SwapInput { vamm, dir, quote, .. } => {
            p.insert("quote", vq(*vamm, json!({"input_amount": {"direction": dir.js(), "amount": quote.to_string()}})));
        }
        Op::SwapOutput { vamm, dir, base, .. } => {
            p.insert("quote", vq(*vamm, json!({"output_amount": {"direction": dir.js(), "amount": base.to_string()}})));
        }
        _ => {}
    }
    p
}

/// The configuration a statement speaks of ("the vAMM's toll ratio", "the maintenance ratio", "the holding cap") is the
/// one the accepted configuration calls of the history left. Before every step the values the contracts report are
/// compared with that history; a difference is a violation of the properties whose statements depend on the field.
fn configured_values(prop: &str, ctx: &Ctx, w: &World, ev: &mut Ev) {
    if w.cfg.kind == WorldKind::FeedOnly {
        return;
    }
    let fields: &[&str] = match prop {
        "C05" => &["initial", "maintenance"],
        "C06" | "C07" => &["maintenance", "partial", "liq_fee"],
        "C12" => &["toll", "spread"],
        "C15" => &["fluct", "partial"],
        "C17" => &["partial"],
        "C20" => &["holding_cap", "oi_cap", "toll", "spread", "fluct", "twap_interval", "initial", "maintenance", "partial", "liq_fee"],
        _ => return,
    };
    let mut check = |ev: &mut Ev, scope: String, field: &'static str, reported: U, hist: Option<&U>| {
        if let Some(h) = hist {
            if fields.contains(&field) && *h != reported {
                let key = format!("cfg:{}:{}", scope, field);
                if !ev.poisoned.contains(&key) {
                    ev.poisoned.insert(key);
                    ev.violation("configured_value_lost", &format!("{},{}", if scope == "engine" { "engine" } else { "vamm" }, field), json!({"where": scope, "field": field, "reported_by_contract": reported.to_string(), "left_by_accepted_calls": h.to_string()}));
                }
            }
        }
    };
    if let Some(e) = &ctx.pre.eng {
        let m = &ctx.model.eng_cfg_ref;
        check(ev, "engine".into(), "initial", e.initial, m.get("initial"));
        check(ev, "engine".into(), "maintenance", e.maintenance, m.get("maintenance"));
        check(ev, "engine".into(), "partial", e.partial, m.get("partial"));
        check(ev, "engine".into(), "liq_fee", e.liq_fee, m.get("liq_fee"));
    }
    for (i, v) in ctx.pre.vamms.iter().enumerate() {
        if !v.ok {
            continue;
        }
        if let Some(m) = ctx.model.vamm_cfg_ref.get(i) {
            check(ev, format!("vamm{}", i), "holding_cap", v.holding_cap, m.get("holding_cap"));
            check(ev, format!("vamm{}", i), "oi_cap", v.oi_cap, m.get("oi_cap"));
            check(ev, format!("vamm{}", i), "toll", v.toll, m.get("toll"));
            check(ev, format!("vamm{}", i), "spread", v.spread, m.get("spread"));
            check(ev, format!("vamm{}", i), "fluct", v.fluct, m.get("fluct"));
            check(ev, format!("vamm{}", i), "twap_interval", v.twap_interval as U, m.get("twap_interval"));
        }
    }
}

pub fn step(prop: &str, ctx: &Ctx, w: &World, ev: &mut Ev) {
    configured_values(prop, ctx, w, ev);
    match prop {
        "C01" => c01::step(ctx, w, ev),
        "C02" => c02::step(ctx, w, ev),
        "C03" => c03::step(ctx, w, ev),
        "C04" => c04::step(ctx, w, ev),
        "C05" => c05::step(ctx, w, ev),
        "C06" => c06::step(ctx, w, ev),
        "C07" => {}
        "C08" => c08::step(ctx, w, ev),
        "C09" => c09::step(ctx, w, ev),
        "C10" => c10::step(ctx, w, ev),
        "C11" => c11::step(ctx, w, ev),
        "C12" => c12::step(ctx, w, ev),
        "C14" => c14::step(ctx, w, ev),
        "C15" => c15::step(ctx, w, ev),
        "C16" => c16::step(ctx, w, ev),
        "C17" => c17::step(ctx, w, ev),
        "C18" => c18::step(ctx, w, ev),
        "C20" => c20::step(ctx, w, ev),
        _ => {}
    }
}

pub fn finish(_r: &mut Runner) {}
