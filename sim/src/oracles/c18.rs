//! C18 - time-weighted prices stay within the prices actually observed.
use serde_json::{json, Value};

use crate::obs::pu;
use crate::run::{Ctx, Ev, PriceRec};
use crate::types::*;
use crate::world::{lp, World, KEYS};

fn window_class(i: u64) -> &'static str {
    if i <= 900 {
        "le_15min"
    } else if i <= 3600 {
        "le_1h"
    } else {
        "gt_1h"
    }
}

/// min/max of the recorded prices whose validity overlaps [now - interval, now]
fn bounds(recs: &[(u64, U)], now: u64, interval: u64) -> Option<(U, U, bool)> {
    if recs.is_empty() {
        return None;
    }
    let base = now.saturating_sub(interval);
    let mut lo = U::MAX;
    let mut hi = 0;
    let mut longer = true;
    for (j, (t, p)) in recs.iter().enumerate() {
        let end = recs.get(j + 1).map(|x| x.0).unwrap_or(u64::MAX);
        if *t > now {
            continue;
        }
        // valid on [t, end); overlaps the window if it is still valid after its start (or is the last record)
        if end > base || j + 1 == recs.len() {
            lo = lo.min(*p);
            hi = hi.max(*p);
        }
        if *t <= base {
            longer = false;
        }
    }
    if lo == U::MAX {
        return None;
    }
    Some((lo, hi, longer))
}

/// Bounds for the feed: the prices in effect for a positive stretch of the window [now - interval, now]. A round in
/// effect for zero seconds of it (stamped at `now`, or superseded in the second it was stamped) has no part in a
/// time-weighted average; if no round has a positive stretch the plain overlap is used.
pub fn feed_bounds(recs: &[(u64, U)], now: u64, interval: u64) -> Option<(U, U, bool)> {
    let (_, _, longer) = bounds(recs, now, interval)?;
    let base = now.saturating_sub(interval);
    let mut lo = U::MAX;
    let mut hi = 0;
    for (j, (t, p)) in recs.iter().enumerate() {
        let end = recs.get(j + 1).map(|x| x.0).unwrap_or(u64::MAX).min(now);
        let start = (*t).max(base);
        if start < end {
            lo = lo.min(*p);
            hi = hi.max(*p);
        }
    }
    if lo == U::MAX {
        return bounds(recs, now, interval);
    }
    Some((lo, hi, longer))
}

pub fn vamm_records(ctx: &Ctx, v: usize) -> Vec<PriceRec> {
    let mut recs = ctx.model.prices[v].clone();
    let (a, b) = (&ctx.pre.vamms[v], &ctx.post.vamms[v]);
    if a.q != b.q || a.b != b.b {
        let rec = PriceRec { height: ctx.post.height, time: ctx.post.time, price: b.spot, q: b.q, b: b.b };
        if recs.last().map(|r| r.height) == Some(ctx.post.height) {
            *recs.last_mut().unwrap() = rec;
        } else {
            recs.push(rec);
        }
    }
    recs
}

pub fn step(ctx: &Ctx, w: &World, ev: &mut Ev) {
    let now = ctx.post.time;
    for v in 0..ctx.post.vamms.len() {
        let vo = &ctx.post.vamms[v];
        if !vo.ok {
            continue;
        }
        let recs = vamm_records(ctx, v);
        let series: Vec<(u64, U)> = recs.iter().map(|r| (r.time, r.price)).collect();
        let distinct = series.iter().map(|x| x.1).collect::<std::collections::BTreeSet<_>>().len();
        let hist = now.saturating_sub(series[0].0);
        let tib = if ctx.model.trades_in_block[v].0 == ctx.post.height { ctx.model.trades_in_block[v].1.min(3) } else { 0 };
        // intervals shorter than, equal to and longer than the history, aligned and misaligned with snapshot times
        let last_t = series.last().map(|x| x.0).unwrap_or(now);
        let mut intervals: Vec<u64> = vec![vo.twap_interval, 900, 60, 3600, hist.max(1), hist + 1, hist.saturating_sub(1).max(1), now.saturating_sub(last_t).max(1), now.saturating_sub(last_t) + 1, 86400 * 3];
        if series.len() >= 3 {
            intervals.push(now.saturating_sub(series[series.len() - 2].0).max(1));
        }
        // rotate which intervals are asked so that the cost per step stays small
        let pick = [ctx.idx % intervals.len(), (ctx.idx * 7 + 3) % intervals.len(), 0];
        for pi_ in pick {
            let i = intervals[pi_];
            if i == 0 {
                continue;
            }
            let res = w.q(&w.addrs.vamms[v], json!({"twap_price": {"interval": i}}));
            let tw = match res {
                Ok(x) => pu(&x),
                Err(_) => {
                    ev.count("vamm_twap_query_trapped");
                    continue;
                }
            };
            let (lo, hi, longer) = match bounds(&series, now, i) {
                Some(x) => x,
                None => continue,
            };
            let rel = if longer { "longer" } else if i == hist { "equal" } else { "shorter" };
            ev.eval(distinct >= 2, &("vamm", rel, window_class(i), tib, lo == hi), || {
                json!({"source": "vamm", "interval": i, "history_seconds": hist, "records": series.len(), "twap": tw.to_string(), "min": lo.to_string(), "max": hi.to_string()})
            });
            if tw < lo || tw > hi {
                ev.violation("vamm_twap_bounds", &format!("{},{},{}", rel, if tw > hi { "above" } else { "below" }, window_class(i)), json!({"interval": i, "twap": tw.to_string(), "min": lo.to_string(), "max": hi.to_string(), "records": series.iter().rev().take(6).map(|x| json!([x.0, x.1.to_string()])).collect::<Vec<_>>(), "now": now}));
            }
            if distinct == 1 && tw != vo.spot {
                ev.violation("vamm_twap_flat", window_class(i), json!({"interval": i, "twap": tw.to_string(), "spot": vo.spot.to_string()}));
            }
        }
        // raw reserve snapshots: strictly increasing heights, newest equals the current reserves after a swap in this block
        let mut pref = World::contract_prefix(&w.addrs.vamms[v]);
        pref.extend(lp(b"reserve_snapshot"));
        let mut last_h = 0u64;
        let mut newest: Option<Value> = None;
        let mut n = 0usize;
        for (k, val) in ctx.post.dump.iter() {
            if k.starts_with(&pref) && k.len() == pref.len() + 8 {
                if let Ok(s) = serde_json::from_slice::<Value>(val) {
                    let h = s["block_height"].as_u64().unwrap_or(0);
                    if n > 0 && h <= last_h {
                        ev.violation("snapshot_per_block", "height_not_increasing", json!({"height": h, "previous": last_h}));
                    }
                    last_h = h;
                    newest = Some(s);
                    n += 1;
                }
            }
        }
        let (a, b) = (&ctx.pre.vamms[v], &ctx.post.vamms[v]);
        if a.q != b.q || a.b != b.b {
            if let Some(s) = newest {
                ev.eval(tib >= 1, &("snapshot", tib), || json!({"source": "snapshot", "entries": n, "trades_in_block": tib}));
                if pu(&s["quote_asset_reserve"]) != b.q || pu(&s["base_asset_reserve"]) != b.b || s["block_height"].as_u64() != Some(ctx.post.height) {
                    ev.violation("snapshot_per_block", "newest_ne_final_reserves", json!({"snapshot": s, "q": b.q.to_string(), "b": b.b.to_string(), "height": ctx.post.height}));
                }
            }
        }
    }
    // price feed (the repository's own)
    if w.cfg.oracle == OracleKind::Real {
        for (k, subs) in ctx.model.feed.iter().enumerate() {
            let mut series: Vec<(u64, U)> = subs.clone();
            // the submission of this very step
            match &ctx.step.op {
                Op::AppendPrice { vamm, price, timestamp } if *vamm == k && ctx.out.ok => series.push((*timestamp, *price)),
                Op::AppendMulti { vamm, prices, timestamps } if *vamm == k && ctx.out.ok => {
                    for (p, t) in prices.iter().zip(timestamps.iter()) {
                        series.push((*t, p.parse().unwrap_or(0)));
                    }
                }
                _ => {}
            }
            if series.is_empty() {
                // nothing was ever submitted under this key: whatever "latest" or "n rounds back" serves is nobody's value
                let key = KEYS[k.min(3)];
                for (name, m) in [("latest", json!({"get_price": {"key": key}})), ("previous", json!({"get_previous_price": {"key": key, "num_round_back": "0"}}))] {
                    if let Ok(x) = w.q(&w.addrs.pricefeed, m) {
                        ev.eval(true, &("feed_no_submissions", name), || json!({"source": "feed", "query": name, "submissions": 0, "served": x.clone()}));
                        ev.violation("feed_latest", &format!("served_without_submission,{}", name), json!({"query": name, "submissions": 0, "served": x}));
                    }
                }
                continue;
            }
            let key = KEYS[k.min(3)];
            let pf = &w.addrs.pricefeed;
            let count = series.len();
            let distinct = series.iter().map(|x| x.1).collect::<std::collections::BTreeSet<_>>().len();
            match w.q(pf, json!({"get_price": {"key": key}})) {
                Ok(x) => {
                    let got = pu(&x["price"]);
                    ev.eval(distinct >= 2, &("feed_latest", count.min(4)), || json!({"source": "feed", "query": "latest", "got": got.to_string()}));
                    if got != series[count - 1].1 {
                        ev.violation("feed_latest", "mismatch", json!({"got": got.to_string(), "last_submission": series[count - 1].1.to_string()}));
                    }
                }
                Err(e) => {
                    // something was submitted: the latest query has to return it (whatever its value, zero included)
                    ev.eval(true, &("feed_latest_refused", count.min(4)), || json!({"source": "feed", "query": "latest", "submissions": count, "error": e}));
                    ev.violation("feed_latest", "refused_with_submissions", json!({"submissions": count, "last_submission": series[count - 1].1.to_string(), "error": e}));
                }
            }
            // n rounds back, for an n that walks through the whole history (also its far end)
            let nb = match ctx.idx % 3 {
                0 => (ctx.idx % count) as u128,
                1 => (count - 1) as u128,
                _ => ((count - 1) as u128).saturating_sub((ctx.idx % 7) as u128),
            };
            let prev = w.q(pf, json!({"get_previous_price": {"key": key, "num_round_back": nb.to_string()}}));
            if let Err(e) = &prev {
                // 0 <= n < number of submissions: the round exists, the query has to serve it (a trapped query serves nothing)
                ev.eval(true, &("feed_previous_refused", nb.min(3) as u64), || json!({"source": "feed", "query": "previous", "n": nb.to_string(), "submissions": count, "error": e}));
                ev.violation("feed_previous", if e.starts_with("panic") { "trapped_within_history" } else { "refused_within_history" }, json!({"n": nb.to_string(), "submissions": count, "error": e}));
            }
            if let Ok(x) = prev {
                let got = pu(&x["price"]);
                let exp = series[count - 1 - nb as usize].1;
                ev.eval(distinct >= 2, &("feed_previous", nb.min(3) as u64), || json!({"source": "feed", "query": "previous", "n": nb.to_string(), "got": got.to_string()}));
                if got != exp {
                    ev.violation("feed_previous", if nb == 0 { "n0" } else { "n_gt_0" }, json!({"n": nb.to_string(), "got": got.to_string(), "expected": exp.to_string()}));
                }
            }
            // n = number of submissions (or more): no such round was ever submitted, whatever is served is nobody's value
            for extra in [0u128, 1] {
                let n = count as u128 + extra;
                if let Ok(x) = w.q(pf, json!({"get_previous_price": {"key": key, "num_round_back": n.to_string()}})) {
                    ev.eval(true, &("feed_previous_beyond", extra as u64), || json!({"source": "feed", "query": "previous", "n": n.to_string(), "submissions": count, "served": x.clone()}));
                    ev.violation("feed_previous", if extra == 0 { "served_beyond_history,n_eq_submissions" } else { "served_beyond_history,n_gt_submissions" }, json!({"n": n.to_string(), "submissions": count, "served": x}));
                }
            }
            let first_t = series[0].0;
            let last_t = series[count - 1].0;
            let hist = now.saturating_sub(first_t);
            let ivs = [900u64, 60, 3600, hist.max(1), hist + 1, now.saturating_sub(last_t).max(1), now.saturating_sub(last_t) + 1, 86400];
            for j in [ctx.idx % ivs.len(), (ctx.idx * 5 + 1) % ivs.len()] {
                let i = ivs[j];
                let tw = match w.q(pf, json!({"get_twap_price": {"key": key, "interval": i}})) {
                    Ok(x) => pu(&x),
                    Err(_) => {
                        ev.count("feed_twap_query_trapped_or_refused");
                        continue;
                    }
                };
                if let Some((lo, hi, longer)) = feed_bounds(&series, now, i) {
                    let rel = if longer { "longer" } else { "shorter" };
                    ev.eval(distinct >= 2, &("feed", rel, window_class(i), lo == hi), || json!({"source": "feed", "interval": i, "twap": tw.to_string(), "min": lo.to_string(), "max": hi.to_string(), "submissions": count}));
                    if tw < lo || tw > hi {
                        ev.violation("feed_twap_bounds", &format!("{},{},{}", rel, if tw > hi { "above" } else { "below" }, window_class(i)), json!({"interval": i, "twap": tw.to_string(), "min": lo.to_string(), "max": hi.to_string(), "submissions": series.iter().rev().take(6).map(|x| json!([x.0, x.1.to_string()])).collect::<Vec<_>>(), "now": now}));
                    }
                }
            }
        }
    }
}
