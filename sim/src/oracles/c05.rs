//! C05 - trader actions never leave the trader under-margined.
use serde_json::json;

use super::engine_refs::*;
use crate::obs::pi;
use crate::refmodel::*;
use crate::run::{Ctx, Ev};
use crate::types::*;
use crate::world::World;

pub fn step(ctx: &Ctx, w: &World, ev: &mut Ev) {
    if w.cfg.kind != WorldKind::Standard {
        return;
    }
    let actor = w.resolve(&ctx.step.actor);
    let d = w.d;
    let eng = match &ctx.pre.eng {
        Some(e) => e.clone(),
        None => return,
    };
    let engine = w.addrs.engine.clone();
    match &ctx.step.op {
        Op::Open { vamm, leverage, .. } => {
            let v = *vamm;
            // leverage bounds: below 1, or above 1/initial ratio, never succeeds
            let too_low = *leverage < d;
            let too_high = u256(*leverage) * u256(eng.initial) > u256(d) * u256(d);
            let boundary = *leverage == d || *leverage + 1 == d || u256(*leverage) * u256(eng.initial) == u256(d) * u256(d) || (eng.initial > 0 && *leverage == d * d / eng.initial + 1);
            if too_low || too_high || boundary {
                ev.eval(true, &("lev", too_low, too_high, boundary, ctx.out.ok), || json!({"open_leverage": leverage.to_string(), "initial_ratio": eng.initial.to_string(), "accepted": ctx.out.ok}));
            }
            if ctx.out.ok && (too_low || too_high) {
                ev.violation("lev_bounds", if too_low { "below_one" } else { "above_max" }, json!({"leverage": leverage.to_string(), "initial_ratio": eng.initial.to_string()}));
            }
            if !ctx.out.ok {
                return;
            }
            let p = match ctx.post.position(v, &actor) {
                Some(p) if p.size != 0 => p.clone(),
                _ => return,
            };
            let class = classify_open(ctx, w).map(|c| c.kind.s()).unwrap_or("unknown");
            let mut pp = match pnl_pair_now(w, v, &actor) {
                Some(x) => x,
                None => return,
            };
            // the 15-minute TWAP valuation: the harness's own, from its per-block record of the reserves (this step's
            // trade included), when it can be computed and is more than a rounding away from the engine's figure
            {
                let recs = super::c18::vamm_records(ctx, v);
                let in_window = recs.iter().filter(|r| r.time + 900 > ctx.post.time).count();
                ev.count(if in_window > 512 { "twap15_window_snapshots/over_512" } else if in_window > 100 { "twap15_window_snapshots/101_to_512" } else { "twap15_window_snapshots/up_to_100" });
                match twap_output_ref(&recs, p.dir, p.size.unsigned_abs(), 900, ctx.post.time, ctx.post.vamms[v].decimals.max(1)) {
                    TwapRef::Value(tn) => {
                        if tn.abs_diff(pp.twap_n) > 1 {
                            ev.count("twap15_reference_differs_from_engine_figure");
                            if let Some(tp) = pnl(p.dir, tn, p.notional) {
                                pp.twap_n = tn;
                                pp.twap_pnl = tp;
                            }
                        } else {
                            ev.count("twap15_reference_equals_engine_figure");
                        }
                    }
                    TwapRef::Unbounded => {
                        ev.count("twap15_unbounded_spot_binding");
                        pp.twap_n = pp.spot_n;
                        pp.twap_pnl = pp.spot_pnl;
                    }
                    TwapRef::Unknown => {}
                }
            }
            let f = match owed(ctx.post, v, &actor, d) {
                Some(x) => x,
                None => return,
            };
            let (which, n, pl) = pp.binding();
            let r = match ratio(p.margin, pl, f, n, d) {
                Some(x) => x,
                None => {
                    ev.count("ref_overflow_skipped");
                    return;
                }
            };
            let eng2 = ctx.post.eng.clone().unwrap_or_default();
            let same = eng2.initial == eng2.maintenance;
            ev.eval(ctx.pre.position(v, &actor).map(|x| x.size != 0).unwrap_or(false) || boundary, &("open", class, which, boundary, same), || {
                json!({"open": class, "binding_pnl": which, "ratio": r.to_string(), "maintenance": eng2.maintenance.to_string(), "margin": p.margin.to_string(), "notional": n.to_string()})
            });
            if which == "twap" {
                ev.count("ratio_decided_by_twap");
            }
            if r < eng2.maintenance as i128 {
                ev.violation("ratio_ge_maint", &format!("{},{},{}", class, which, if same { "init_eq_maint" } else { "init_ne_maint" }), json!({"ratio": r.to_string(), "maintenance": eng2.maintenance.to_string(), "spot_pnl": pp.spot_pnl.to_string(), "twap_pnl": pp.twap_pnl.to_string()}));
            }
            if let Ok(q) = w.q(&engine, json!({"margin_ratio": {"vamm": w.addrs.vamms[v], "trader": actor}})) {
                let qr = pi(&q);
                if qr != r {
                    ev.violation("ratio_query_eq_ref", &format!("{},{}", class, which), json!({"query": qr.to_string(), "reference": r.to_string()}));
                }
            }
        }
        Op::Withdraw { vamm, amount } => {
            let v = *vamm;
            let pos = match ctx.pre.position(v, &actor) {
                Some(p) => p.clone(),
                None => return,
            };
            let f = match owed(ctx.pre, v, &actor, d) {
                Some(x) => x,
                None => return,
            };
            let after = pos.margin as i128 - *amount as i128 - f;
            if !ctx.out.ok {
                return;
            }
            ev.eval(f != 0 || pos.size != 0, &("withdraw", sign(f), after == 0), || json!({"withdraw": amount.to_string(), "margin": pos.margin.to_string(), "funding_owed": f.to_string()}));
            if after < 0 {
                ev.violation("withdraw_bad_debt", sign(f), json!({"margin": pos.margin.to_string(), "amount": amount.to_string(), "funding_owed": f.to_string()}));
                return;
            }
            let got = ctx.sent(&engine, &actor);
            if got != *amount || ctx.inflow(&actor) != *amount {
                ev.violation("withdraw_exact", "wallet", json!({"requested": amount.to_string(), "received": ctx.inflow(&actor).to_string()}));
            }
            if let Some(p2) = ctx.post.position(v, &actor) {
                if p2.margin as i128 != after {
                    let diff = p2.margin as i128 - after;
                    let shape = if diff == f { "diff_eq_funding" } else { "other" };
                    ev.violation("withdraw_exact", &format!("margin,{}", shape), json!({"margin_after": p2.margin.to_string(), "expected": after.to_string(), "funding_owed": f.to_string()}));
                }
                if p2.checkpoint != ctx.post.vamms[v].cum {
                    ev.violation("withdraw_exact", "checkpoint", json!({"checkpoint": p2.checkpoint.to_string(), "cumulative": ctx.post.vamms[v].cum.to_string()}));
                }
                // free collateral afterwards: the engine's own query and the reference
                if let Ok(q) = w.q(&engine, json!({"free_collateral": {"vamm": w.addrs.vamms[v], "trader": actor}})) {
                    let fc = pi(&q);
                    if fc < 0 {
                        ev.violation("free_coll_nonneg", "query", json!({"free_collateral": fc.to_string()}));
                    }
                }
                if p2.size != 0 {
                    if let Some(pp) = pnl_pair_now(w, v, &actor) {
                        let (which, n, pl) = pp.binding();
                        let e2 = ctx.post.eng.clone().unwrap_or_default();
                        let acct = p2.margin as i128 + pl;
                        let minc = acct.min(p2.margin as i128);
                        let basis = if p2.size > 0 { p2.notional } else { n };
                        if let Some(req) = mul_div(basis, e2.initial, d) {
                            let fc_ref = minc - req as i128;
                            if fc_ref < 0 {
                                ev.violation("free_coll_nonneg", &format!("reference,{}", which), json!({"free_collateral_ref": fc_ref.to_string(), "margin": p2.margin.to_string(), "pnl": pl.to_string(), "requirement": req.to_string()}));
                            }
                        }
                    }
                }
            }
        }
        Op::Deposit { vamm, amount } => {
            if !ctx.out.ok {
                return;
            }
            let v = *vamm;
            let (a, b) = (ctx.pre.position(v, &actor), ctx.post.position(v, &actor));
            ev.eval(a.is_some(), &("deposit", a.map(|x| x.size != 0)), || json!({"deposit": amount.to_string()}));
            let ma = a.map(|x| x.margin).unwrap_or(0);
            let mb = b.map(|x| x.margin).unwrap_or(0);
            let wallet = -ctx.delta(&actor);
            if mb != ma + *amount || wallet != *amount as i128 || ctx.delta(&engine) != *amount as i128 {
                ev.violation("deposit_exact", "amount", json!({"margin_pre": ma.to_string(), "margin_post": mb.to_string(), "amount": amount.to_string(), "wallet_delta": wallet.to_string(), "vault_delta": ctx.delta(&engine).to_string()}));
            }
        }
        _ => {}
    }
}
