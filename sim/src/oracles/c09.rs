//! C09 - privileged operations are restricted to their role in all five contracts (Byzantine-sender matrix).
use serde_json::json;
use std::collections::BTreeSet;

use crate::run::{Ctx, Ev, Runner};
use crate::types::*;
use crate::world::World;

/// who is entitled to send this operation, given the currently observed role holders
fn entitled(r: &Runner, op: &Op) -> Vec<String> {
    let e = r.obs.eng.clone().unwrap_or_default();
    match op {
        Op::SwapInput { vamm, .. } | Op::SwapOutput { vamm, .. } | Op::SettleFunding { vamm } => vec![r.obs.vamms[*vamm].margin_engine.clone()],
        Op::VammConfig { vamm, .. } | Op::VammOwner { vamm, .. } => vec![r.obs.vamms[*vamm].owner.clone()],
        // the insurance fund the vAMM was given (from the history), not whatever its config reports
        Op::SetOpen { vamm, .. } => {
            let mut v = vec![r.obs.vamms[*vamm].owner.clone()];
            if let Some(f) = &r.model.vamm_if[*vamm] {
                v.push(f.clone());
            }
            v
        }
        Op::EngineConfig { .. } => vec![e.owner.clone()],
        Op::UpdatePauser { .. } | Op::AddWhitelist { .. } | Op::RemoveWhitelist { .. } | Op::SetPause { .. } => vec![e.pauser.clone()],
        Op::IfWithdraw { .. } => vec![r.w.addrs.engine.clone()],
        Op::IfOwner { .. } | Op::AddVamm { .. } | Op::RemoveVamm { .. } => vec![r.obs.if_owner.clone()],
        // the fund's own address is also accepted by the contract; no code path sends it, the cell is excluded (DESIGN 5.C09)
        Op::Shutdown => vec![r.obs.if_owner.clone(), r.w.addrs.insurance_fund.clone()],
        Op::FpOwner { .. } | Op::FpAddToken { .. } | Op::FpRemoveToken { .. } | Op::FpSend { .. } => vec![r.obs.fp_owner.clone()],
        Op::AppendPrice { .. } | Op::AppendMulti { .. } | Op::PfOwner { .. } => vec![r.obs.pf_owner.clone()],
        _ => vec![],
    }
}

fn contract_of(op: &Op) -> &'static str {
    match op.target() {
        Target::Engine => "engine",
        Target::Vamm(_) => "vamm",
        Target::InsuranceFund => "insurance_fund",
        Target::FeePool => "fee_pool",
        Target::PriceFeed => "pricefeed",
        _ => "other",
    }
}

pub fn variants(r: &Runner) -> Vec<Op> {
    let d = r.w.d;
    let v0 = &r.obs.vamms[0];
    let eng = r.obs.eng.clone().unwrap_or_default();
    let now = r.w.now();
    let registered0 = v0.registered;
    let mut ops = vec![
        Op::VammConfig { vamm: 0, holding_cap: None, oi_cap: None, toll: None, spread: None, fluct: Some(v0.fluct), margin_engine: None, insurance_fund: None, pricefeed: None, twap_interval: None },
        // each address-valued field of the vAMM's configuration on its own (restating the deployment's values)
        Op::VammConfig { vamm: 0, holding_cap: None, oi_cap: None, toll: None, spread: None, fluct: None, margin_engine: None, insurance_fund: None, pricefeed: Some("@pf".into()), twap_interval: None },
        Op::VammConfig { vamm: 0, holding_cap: None, oi_cap: None, toll: None, spread: None, fluct: None, margin_engine: Some("@engine".into()), insurance_fund: None, pricefeed: None, twap_interval: None },
        Op::VammConfig { vamm: 0, holding_cap: None, oi_cap: None, toll: None, spread: None, fluct: None, margin_engine: None, insurance_fund: Some("@if".into()), pricefeed: None, twap_interval: None },
        Op::VammOwner { vamm: 0, owner: "stranger".into() },
        Op::SwapInput { vamm: 0, dir: Dir::Add, quote: (v0.q / 100_000).max(10), limit: 0, can_go_over: true },
        Op::SwapOutput { vamm: 0, dir: Dir::Add, base: (v0.b / 100_000).max(10), limit: 0 },
        Op::SettleFunding { vamm: 0 },
        Op::SetOpen { vamm: 0, open: !v0.open },
        Op::SetOpen { vamm: 0, open: v0.open },
        Op::EngineConfig { owner: None, insurance_fund: None, fee_pool: None, initial: None, maintenance: None, partial: Some(eng.partial), liq_fee: None },
        Op::EngineConfig { owner: Some("stranger".into()), insurance_fund: None, fee_pool: None, initial: None, maintenance: None, partial: None, liq_fee: None },
        Op::UpdatePauser { pauser: "stranger".into() },
        Op::AddWhitelist { address: "keeper".into() },
        Op::RemoveWhitelist { address: "trader0".into() },
        Op::SetPause { pause: !r.model.paused },
        Op::IfOwner { owner: "stranger".into() },
        if registered0 { Op::RemoveVamm { vamm: "@vamm0".into() } } else { Op::AddVamm { vamm: "@vamm0".into() } },
        if registered0 { Op::AddVamm { vamm: "@vamm1".into() } } else { Op::RemoveVamm { vamm: "@vamm1".into() } },
        Op::IfWithdraw { amount: 1 },
        Op::Shutdown,
        Op::FpOwner { owner: "stranger".into() },
        Op::FpAddToken { token: "@token".into() },
        Op::FpRemoveToken { token: "@token".into() },
        Op::FpSend { amount: 1, recipient: "stranger".into() },
        Op::AppendPrice { vamm: 0, price: v0.spot.max(1), timestamp: now },
        Op::AppendMulti { vamm: 0, prices: vec![v0.spot.max(1).to_string()], timestamps: vec![now] },
        // a key nothing was ever submitted under (market index 3 stands for the key "DDD", which no deployed vAMM uses)
        Op::AppendPrice { vamm: 3, price: v0.spot.max(1), timestamp: now },
        Op::AppendMulti { vamm: 3, prices: vec![v0.spot.max(1).to_string()], timestamps: vec![now] },
        Op::PfOwner { owner: "stranger".into() },
    ];
    let _ = d;
    if r.w.addrs.vamms.len() < 2 {
        ops.retain(|o| !matches!(o, Op::AddVamm { vamm } | Op::RemoveVamm { vamm } if vamm == "@vamm1"));
    }
    ops
}

pub fn probe(r: &mut Runner) {
    if r.w.cfg.kind != WorldKind::Standard || r.obs.vamms.is_empty() || !r.obs.vamms[0].ok {
        return;
    }
    let e = r.obs.eng.clone().unwrap_or_default();
    // sender kinds: every current role holder, every former holder, every contract address, traders and strangers
    let mut senders: Vec<(String, String)> = vec![
        ("engine_owner".into(), e.owner.clone()),
        ("pauser".into(), e.pauser.clone()),
        ("if_owner".into(), r.obs.if_owner.clone()),
        ("fp_owner".into(), r.obs.fp_owner.clone()),
        ("pf_owner".into(), r.obs.pf_owner.clone()),
        ("vamm_owner".into(), r.obs.vamms[0].owner.clone()),
        ("engine_contract".into(), r.w.addrs.engine.clone()),
        ("insurance_fund_contract".into(), r.w.addrs.insurance_fund.clone()),
        ("vamm_contract".into(), r.w.addrs.vamms[0].clone()),
        ("fee_pool_contract".into(), r.w.addrs.fee_pool.clone()),
        ("trader".into(), "trader0".into()),
        ("stranger".into(), "stranger".into()),
    ];
    for (role, who) in r.model.former.iter() {
        senders.push((format!("former_{}", role), who.clone()));
    }
    let mut seen = BTreeSet::new();
    senders.retain(|(_, a)| !a.is_empty() && seen.insert(a.clone()));
    let former_any: BTreeSet<String> = r.model.former.iter().map(|x| x.1.clone()).collect();
    let ops = variants(r);
    let base_dump = r.w.dump();
    for op in ops.iter() {
        let ent = entitled(r, op);
        let contract = contract_of(op);
        for (skind, saddr) in senders.iter() {
            if matches!(op, Op::Shutdown) && *saddr == r.w.addrs.insurance_fund {
                continue; // excluded cell
            }
            let is_ent = ent.iter().any(|x| x == saddr);
            let o2 = op.clone();
            let sa = saddr.clone();
            let (out, dump_after) = r.fork(|w| {
                let out = w.exec(&sa, &o2, 0, None);
                let dmp = if out.ok { None } else { Some(w.dump()) };
                (out, dmp)
            });
            let after_transfer = former_any.contains(saddr) || !r.model.former.is_empty();
            let variant = match op {
                Op::SetOpen { open, .. } => format!("SetOpen({})", open),
                Op::EngineConfig { owner: Some(_), .. } => "EngineConfig(owner)".to_string(),
                o => o.kind().to_string(),
            };
            r.ev.eval(!is_ent || out.ok, &(contract, variant.clone(), skind.clone(), after_transfer, is_ent), || {
                json!({"contract": contract, "variant": variant, "sender_kind": skind, "sender": saddr, "entitled": is_ent, "succeeded": out.ok})
            });
            if is_ent {
                if out.ok {
                    r.ev.count(&format!("entitled_ok/{}/{}", contract, variant));
                }
            } else {
                r.ev.count("cells/not_entitled");
                if out.ok {
                    r.ev.violation("unauthorized_succeeded", &format!("{},{},{}", contract, variant, skind), json!({"sender": saddr, "op": serde_json::to_value(op).unwrap_or_default()}));
                } else if dump_after.as_ref().map(|d| *d != base_dump).unwrap_or(false) {
                    r.ev.violation("unauthorized_changed_state", &format!("{},{},{}", contract, variant, skind), json!({"sender": saddr}));
                }
            }
        }
    }
}

/// main history: a privileged operation that succeeds must have been sent by its role holder
pub fn step(ctx: &Ctx, w: &World, ev: &mut Ev) {
    if w.cfg.kind != WorldKind::Standard || !ctx.out.ok {
        return;
    }
    let sender = w.resolve(&ctx.step.actor);
    let e = ctx.pre.eng.clone().unwrap_or_default();
    let ent: Vec<String> = match &ctx.step.op {
        Op::VammConfig { vamm, .. } | Op::VammOwner { vamm, .. } => vec![ctx.pre.vamms[*vamm].owner.clone()],
        Op::SetOpen { vamm, .. } => {
            let mut v = vec![ctx.pre.vamms[*vamm].owner.clone()];
            if let Some(f) = &ctx.model.vamm_if[*vamm] {
                v.push(f.clone());
            }
            v
        }
        Op::EngineConfig { .. } => vec![e.owner.clone()],
        Op::UpdatePauser { .. } | Op::AddWhitelist { .. } | Op::RemoveWhitelist { .. } | Op::SetPause { .. } => vec![e.pauser.clone()],
        Op::IfOwner { .. } | Op::AddVamm { .. } | Op::RemoveVamm { .. } => vec![ctx.pre.if_owner.clone()],
        // the fund's own address is the excluded cell (DESIGN 5.C09)
        Op::Shutdown => vec![ctx.pre.if_owner.clone(), w.addrs.insurance_fund.clone()],
        Op::FpOwner { .. } | Op::FpAddToken { .. } | Op::FpRemoveToken { .. } | Op::FpSend { .. } => vec![ctx.pre.fp_owner.clone()],
        Op::AppendPrice { .. } | Op::AppendMulti { .. } | Op::PfOwner { .. } if w.cfg.oracle == OracleKind::Real => vec![ctx.pre.pf_owner.clone()],
        _ => return,
    };
    let kind = ctx.step.op.kind();
    // an accepted transfer of a role takes effect: the holder the contract reports afterwards is the one named in the call
    {
        let post_eng = ctx.post.eng.clone().unwrap_or_default();
        let moved: Option<(&str, String, String)> = match &ctx.step.op {
            Op::EngineConfig { owner: Some(o), .. } => Some(("engine_owner", w.resolve(o), post_eng.owner.clone())),
            Op::UpdatePauser { pauser } => Some(("pauser", w.resolve(pauser), post_eng.pauser.clone())),
            Op::VammOwner { vamm, owner } => Some(("vamm_owner", w.resolve(owner), ctx.post.vamms[*vamm].owner.clone())),
            Op::IfOwner { owner } => Some(("insurance_fund_owner", w.resolve(owner), ctx.post.if_owner.clone())),
            Op::FpOwner { owner } => Some(("fee_pool_owner", w.resolve(owner), ctx.post.fp_owner.clone())),
            Op::PfOwner { owner } if w.cfg.oracle == OracleKind::Real => Some(("pricefeed_owner", w.resolve(owner), ctx.post.pf_owner.clone())),
            _ => None,
        };
        if let Some((role, named, holder)) = moved {
            let combined = matches!(&ctx.step.op, Op::EngineConfig { insurance_fund, fee_pool, initial, maintenance, partial, liq_fee, .. } if insurance_fund.is_some() || fee_pool.is_some() || initial.is_some() || maintenance.is_some() || partial.is_some() || liq_fee.is_some());
            ev.eval(true, &("transfer", role, combined, named == holder), || json!({"where": "main_history", "transfer_of": role, "to": named, "holder_afterwards": holder, "combined_with_other_fields": combined}));
            if named != holder {
                ev.violation("transfer_not_applied", &format!("{},{}", role, if combined { "combined" } else { "alone" }), json!({"named": named, "holder_afterwards": holder}));
            }
        }
    }
    ev.eval(true, &("main", kind, ent.iter().any(|x| *x == sender)), || json!({"where": "main_history", "op": kind, "sender": sender}));
    if !ent.iter().any(|x| *x == sender) {
        ev.violation("unauthorized_succeeded", &format!("{},{},main", contract_of(&ctx.step.op), kind), json!({"sender": sender, "entitled": ent}));
    }
}
