//! C02 - sum of engine position sizes mirrors the vAMM's net size (delta form, after every transaction).
use serde_json::json;

use crate::run::{Ctx, Ev};
use crate::world::World;

pub fn step(ctx: &Ctx, _w: &World, ev: &mut Ev) {
    let n = ctx.post.vamms.len();
    for i in 0..n {
        let (a, b) = (&ctx.pre.vamms[i], &ctx.post.vamms[i]);
        if !a.ok || !b.ok {
            continue;
        }
        let sum = |o: &crate::obs::Obs| -> i128 { o.pos.iter().filter(|((v, _), _)| *v == i).map(|(_, p)| p.size).sum() };
        let (s0, s1) = (sum(ctx.pre), sum(ctx.post));
        let d_pos = s1 - s0;
        let d_vamm = b.size - a.size;
        let kind = ctx.step.op.kind();
        let arm = reply_arm(ctx);
        let npos = ctx.post.pos.iter().filter(|((v, _), p)| *v == i && p.size != 0).count();
        let nontrivial = d_pos != 0 || d_vamm != 0 || ctx.out.fault_fired.is_some();
        ev.eval(nontrivial, &(kind, arm.clone(), d_vamm.signum(), npos.min(4), ctx.out.ok), || {
            json!({"op": kind, "vamm": i, "reply_arm": arm, "sum_pre": s0.to_string(), "sum_post": s1.to_string(), "net_pre": a.size.to_string(), "net_post": b.size.to_string(), "ok": ctx.out.ok})
        });
        if !arm.is_empty() {
            ev.count(&format!("arm/{}", arm));
        }
        if d_pos != d_vamm && !ev.poisoned.contains(&format!("vamm{}", i)) {
            ev.poisoned.insert(format!("vamm{}", i));
            let side = if d_vamm > 0 || d_pos > 0 { "long_delta" } else { "short_delta" };
            ev.violation(
                "sum_eq_net",
                &format!("{},{},{}", kind, arm, side),
                json!({"vamm": i, "sum_pre": s0.to_string(), "sum_post": s1.to_string(), "net_pre": a.size.to_string(), "net_post": b.size.to_string(), "ok": ctx.out.ok}),
            );
        }
    }
}

/// which engine reply arm ran (response attribute - used for reach counters and discriminators only)
pub fn reply_arm(ctx: &Ctx) -> String {
    let mut arms: Vec<String> = vec![];
    for e in ctx.out.events.iter() {
        if e.ty == "wasm" {
            for a in e.attributes.iter() {
                if a.key == "action" && a.value.ends_with("_reply") {
                    arms.push(a.value.trim_end_matches("_reply").to_string());
                }
            }
        }
    }
    arms.join("+")
}
