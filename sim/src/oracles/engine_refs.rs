//! Shared engine-level reference helpers (DESIGN.md Appendix A.2 / A.3).

use serde_json::json;

use crate::obs::{pi, pu, Obs, Pos};
use crate::refmodel::*;
use crate::run::{pq_field_i, pq_field_u, pq_u, Ctx};
use crate::types::*;
use crate::world::World;

#[derive(Clone, Copy, Debug, PartialEq, Eq, Hash)]
pub enum OpenKind {
    Fresh,
    Increase,
    Reduce,
    Reverse,
    DustReverse,
}

impl OpenKind {
    pub fn s(&self) -> &'static str {
        match self {
            OpenKind::Fresh => "fresh",
            OpenKind::Increase => "increase",
            OpenKind::Reduce => "reduce",
            OpenKind::Reverse => "reverse",
            OpenKind::DustReverse => "dust_reverse",
        }
    }
}

pub struct OpenClass {
    pub kind: OpenKind,
    /// requested notional floor(m*l/D)
    pub n: U,
    /// quote the closing leg exchanges (reverse kinds) - from the pre-state OutputAmount query
    pub q_close: U,
    pub pos: Option<Pos>,
}

/// classify an OpenPosition from pre-state facts only (A.3)
pub fn classify_open(ctx: &Ctx, w: &World) -> Option<OpenClass> {
    let (v, side, margin, leverage) = match &ctx.step.op {
        Op::Open { vamm, side, margin, leverage, .. } => (*vamm, *side, *margin, *leverage),
        _ => return None,
    };
    let actor = w.resolve(&ctx.step.actor);
    let n = mul_div(margin, leverage, w.d)?;
    let pos = ctx.pre.position(v, &actor).cloned();
    let kind = match &pos {
        None => OpenKind::Fresh,
        Some(p) if p.dir == side.dir() => {
            if p.size == 0 {
                OpenKind::Fresh
            } else {
                OpenKind::Increase
            }
        }
        // a stored record of size 0 is no position: whatever direction it still carries, the order opens one
        Some(p) if p.size == 0 => OpenKind::Fresh,
        Some(p) => {
            let cur = pq_u(ctx.preq, "out_whole")?;
            if cur > n {
                OpenKind::Reduce
            } else {
                let r = n.abs_diff(cur);
                if leverage == 0 || r / leverage == 0 {
                    OpenKind::DustReverse
                } else {
                    OpenKind::Reverse
                }
            }
        }
    };
    let q_close = match kind {
        OpenKind::Reverse | OpenKind::DustReverse => {
            if pos.as_ref().map(|p| p.size == 0).unwrap_or(true) {
                0
            } else {
                pq_u(ctx.preq, "out_whole")?
            }
        }
        _ => 0,
    };
    Some(OpenClass { kind, n, q_close, pos })
}

/// funding owed by the (vamm, trader) position in `obs`
pub fn owed(obs: &Obs, v: usize, who: &str, d: U) -> Option<i128> {
    let p = obs.position(v, who)?;
    funding_owed(obs.vamms.get(v)?.cum, p.checkpoint, p.size, d)
}

pub struct PnlPair {
    pub spot_n: U,
    pub spot_pnl: i128,
    pub twap_n: U,
    pub twap_pnl: i128,
}

impl PnlPair {
    /// the PnL with the smaller magnitude (tie: spot) and its notional
    pub fn binding(&self) -> (&'static str, U, i128) {
        if self.spot_pnl.unsigned_abs() > self.twap_pnl.unsigned_abs() {
            ("twap", self.twap_n, self.twap_pnl)
        } else {
            ("spot", self.spot_n, self.spot_pnl)
        }
    }
}

/// spot and TWAP notional / PnL of a position, queried now
pub fn pnl_pair_now(w: &World, v: usize, who: &str) -> Option<PnlPair> {
    let va = w.addrs.vamms.get(v)?;
    let s = w.q(&w.addrs.engine, json!({"unrealized_pnl": {"vamm": va, "trader": who, "calc_option": "spot_price"}})).ok()?;
    let (spot_n, spot_pnl) = (pu(&s["position_notional"]), pi(&s["unrealized_pnl"]));
    // a TWAP valuation that cannot be computed (a reserve record of the window cannot fill the closing trade: its cost
    // is unbounded) is never the one of smaller magnitude: the spot valuation is binding, and the position is judged
    match w.q(&w.addrs.engine, json!({"unrealized_pnl": {"vamm": va, "trader": who, "calc_option": "twap"}})) {
        Ok(t) => Some(PnlPair { spot_n, spot_pnl, twap_n: pu(&t["position_notional"]), twap_pnl: pi(&t["unrealized_pnl"]) }),
        Err(_) => Some(PnlPair { spot_n, spot_pnl, twap_n: spot_n, twap_pnl: spot_pnl }),
    }
}

pub fn pnl_pair_pre(ctx: &Ctx) -> Option<PnlPair> {
    Some(PnlPair {
        spot_n: pq_field_u(ctx.preq, "pnl_spot", "position_notional")?,
        spot_pnl: pq_field_i(ctx.preq, "pnl_spot", "unrealized_pnl")?,
        twap_n: pq_field_u(ctx.preq, "pnl_twap", "position_notional")?,
        twap_pnl: pq_field_i(ctx.preq, "pnl_twap", "unrealized_pnl")?,
    })
}

/// quote reserve movement of vAMM v in this step
pub fn quote_moved(ctx: &Ctx, v: usize) -> U {
    ctx.pre.vamms[v].q.abs_diff(ctx.post.vamms[v].q)
}
pub fn base_moved(ctx: &Ctx, v: usize) -> U {
    ctx.pre.vamms[v].b.abs_diff(ctx.post.vamms[v].b)
}

pub fn sign(x: i128) -> &'static str {
    if x > 0 {
        "pos"
    } else if x < 0 {
        "neg"
    } else {
        "zero"
    }
}

/// what the harness can say about a TWAP of the closing notional
#[derive(Clone, Copy, Debug, PartialEq, Eq)]
pub enum TwapRef {
    Value(U),
    /// a reserve record with a positive weight in the window cannot fill the trade at all (closing a short needs more
    /// base than that record's reserve held): the average cost is unbounded, so the TWAP valuation is never the one of
    /// smaller magnitude
    Unbounded,
    /// arithmetic out of the reference's range
    Unknown,
}

/// The 15-minute (or any interval) time-weighted average of what closing `size` would exchange, computed from the
/// harness's own per-block record of the vAMM's reserves (one record per block with a trade, holding the block's final
/// reserves, plus the reserves at deployment). Each record counts from its block time to the next record's; a record
/// that was in effect for no time at all has no part in the average. The average is over the interval, or over the
/// whole history when that is shorter.
pub fn twap_output_ref(recs: &[crate::run::PriceRec], dir: Dir, size: U, interval: u64, now: u64, d: U) -> TwapRef {
    match twap_output_inner(recs, dir, size, interval, now, d) {
        Ok(Some(x)) => TwapRef::Value(x),
        Ok(None) => TwapRef::Unknown,
        Err(()) => TwapRef::Unbounded,
    }
}

fn twap_output_inner(recs: &[crate::run::PriceRec], dir: Dir, size: U, interval: u64, now: u64, d: U) -> Result<Option<U>, ()> {
    let n = recs.len();
    if n == 0 {
        return Ok(None);
    }
    // Err: that record cannot fill the trade; Ok(None): out of range
    let price = |i: usize| -> Result<Option<U>, ()> {
        if dir == Dir::Remove && recs[i].b <= size {
            return Err(());
        }
        Ok(curve_output(dir, size, recs[i].q, recs[i].b, d))
    };
    macro_rules! some {
        ($e:expr) => {
            match $e {
                Some(x) => x,
                None => return Ok(None),
            }
        };
    }
    let cur = n - 1;
    if interval == 0 {
        return price(cur);
    }
    let base = some!(now.checked_sub(interval));
    if n == 1 || recs[cur].time <= base {
        return price(cur);
    }
    let mut prev_t = recs[cur].time;
    let mut period = some!(now.checked_sub(prev_t)) as u128;
    let mut weighted: U = if period == 0 { 0 } else { some!(some!(price(cur)?).checked_mul(period)) };
    let mut i = cur;
    loop {
        if i == 0 {
            if period == 0 {
                return Ok(None);
            }
            return Ok(Some(weighted / period));
        }
        i -= 1;
        if recs[i].time <= base {
            let dt = (prev_t - base) as u128;
            if dt != 0 {
                weighted = some!(weighted.checked_add(some!(some!(price(i)?).checked_mul(dt))));
            }
            break;
        }
        let dt = (prev_t - recs[i].time) as u128;
        if dt != 0 {
            weighted = some!(weighted.checked_add(some!(some!(price(i)?).checked_mul(dt))));
        }
        period += dt;
        prev_t = recs[i].time;
    }
    Ok(Some(weighted / interval as u128))
}
