// shared engine-level reference helpers
