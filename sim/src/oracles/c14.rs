use crate::run::{Ctx, Ev};
use crate::world::World;
pub fn step(_ctx: &Ctx, _w: &World, _ev: &mut Ev) {}
pub fn gates(_r: &mut crate::run::Runner) {}
pub fn shutdown_subsets(_r: &mut crate::run::Runner) {}
