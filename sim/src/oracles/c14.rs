//! C14 - pause, closed markets and emergency shutdown stop trading (gate matrix in forks).
use serde_json::json;
use std::collections::BTreeMap;

use crate::gen::current_roles;
use crate::refmodel::mul_div;
use crate::run::{Ctx, Ev, Runner};
use crate::types::*;
use crate::world::World;

pub fn step(ctx: &Ctx, w: &World, ev: &mut Ev) {
    if w.cfg.kind != WorldKind::Standard {
        return;
    }
    // registry: no duplicates, at most three, membership queries agree
    let reg = &ctx.post.registry;
    let mut s = reg.clone();
    s.sort();
    s.dedup();
    let kind = ctx.step.op.kind();
    if matches!(ctx.step.op, Op::AddVamm { .. } | Op::RemoveVamm { .. }) {
        ev.eval(true, &("registry", kind, reg.len(), ctx.out.ok), || json!({"registry": reg, "op": kind, "accepted": ctx.out.ok}));
    }
    if s.len() != reg.len() {
        ev.violation("registry", "duplicate", json!({"registry": reg}));
    }
    if reg.len() > 3 {
        ev.violation("registry", "more_than_three", json!({"registry": reg}));
    }
    // the registry's content is what the accepted AddVamm / RemoveVamm calls made it (model updated after this step)
    {
        let mut expect = ctx.model.registry_ref.clone();
        if ctx.out.ok {
            match &ctx.step.op {
                Op::AddVamm { vamm } => {
                    expect.insert(w.resolve(vamm));
                }
                Op::RemoveVamm { vamm } => {
                    expect.remove(&w.resolve(vamm));
                }
                _ => {}
            }
        }
        let got: std::collections::BTreeSet<String> = reg.iter().cloned().collect();
        if got != expect && !ev.poisoned.contains("registry") {
            ev.poisoned.insert("registry".into());
            ev.violation("registry", &format!("content_differs_from_history,{}", kind), json!({"registry": reg, "expected": expect}));
        }
    }
    for (i, va) in w.addrs.vamms.iter().enumerate() {
        if let Ok(x) = w.q(&w.addrs.insurance_fund, json!({"is_vamm": {"vamm": va}})) {
            let m = x["is_vamm"].as_bool().unwrap_or(false);
            if m != reg.iter().any(|r| r == va) {
                ev.violation("registry", "membership_disagrees", json!({"vamm": i, "is_vamm": m, "registry": reg}));
            }
        }
    }
    // an engine call that names something that is not a registered vAMM must not succeed
    if let Op::RawEngine { .. } = &ctx.step.op {
        ev.eval(true, &("raw_unregistered", ctx.out.ok), || json!({"raw_engine_call_with_unregistered_vamm": serde_json::to_value(&ctx.step.op).unwrap_or_default(), "accepted": ctx.out.ok}));
        if ctx.out.ok {
            ev.violation("unregistered_succeeded", "RawEngine,main", json!({"op": serde_json::to_value(&ctx.step.op).unwrap_or_default()}));
        }
    }
    // main-history gate checks
    if ctx.out.ok {
        if ctx.model.paused && matches!(ctx.step.op, Op::Open { .. } | Op::Close { .. } | Op::Deposit { .. } | Op::Withdraw { .. }) {
            ev.violation("paused_succeeded", &format!("{},main", kind), json!({}));
        }
        if let Some(v) = ctx.step.op.vamm_idx() {
            if ctx.step.op.is_engine_user_op() && v < ctx.pre.vamms.len() {
                let vo = &ctx.pre.vamms[v];
                // closed / registered as the history of accepted calls says (not as the contracts report)
                let open_h = ctx.model.open_ref.get(v).cloned().unwrap_or(vo.open);
                let reg_h = ctx.model.registry_ref.contains(&w.addrs.vamms[v]);
                if open_h != vo.open {
                    ev.count("open_flag_differs_from_history");
                }
                if vo.ok && !open_h && !matches!(ctx.step.op, Op::Deposit { .. }) {
                    ev.violation("closed_succeeded", &format!("{},main", kind), json!({"vamm": v}));
                }
                if vo.ok && !reg_h && !matches!(ctx.step.op, Op::Deposit { .. } | Op::Close { .. }) {
                    ev.violation("unregistered_succeeded", &format!("{},main", kind), json!({"vamm": v}));
                }
            }
        }
    }
}

fn set_gates(w: &mut World, roles: &crate::gen::RolesNow, v: usize, paused_now: bool, open_now: bool, reg_now: bool, pause: bool, open: bool, reg: bool) -> bool {
    let mut ok = true;
    if paused_now != pause {
        ok &= w.exec(&roles.pauser, &Op::SetPause { pause }, 0, None).ok;
    }
    if open_now != open {
        ok &= w.exec(&roles.vamm_owner[v], &Op::SetOpen { vamm: v, open }, 0, None).ok;
    }
    if reg_now != reg {
        let name = format!("@vamm{}", v);
        let op = if reg { Op::AddVamm { vamm: name } } else { Op::RemoveVamm { vamm: name } };
        ok &= w.exec(&roles.if_owner, &op, 0, None).ok;
    }
    ok
}

/// every engine operation under every combination of paused/open/registered of one vAMM
pub fn gates(r: &mut Runner) {
    if r.w.cfg.kind != WorldKind::Standard {
        return;
    }
    let d = r.w.d;
    let roles = current_roles(r);
    let nv = r.w.addrs.vamms.len();
    let v = r.steps_done % nv;
    let vo = r.obs.vamms[v].clone();
    if !vo.ok || r.w.cfg.vamms[v].decimals != r.w.cfg.coll.decimals() {
        return;
    }
    // actors: a trader with a position on this vAMM if there is one, and one without
    let holders: Vec<String> = r.obs.pos.iter().filter(|((vv, _), p)| *vv == v && p.size != 0).map(|((_, t), _)| t.clone()).collect();
    let with_pos = holders.first().cloned();
    let trader = with_pos.clone().unwrap_or_else(|| "trader0".to_string());
    let n = (vo.q / 5_000).max(1000);
    let open_op = Op::Open { vamm: v, side: match r.obs.position(v, &trader) { Some(p) if p.size < 0 => Side::Sell, _ => Side::Buy }, margin: mul_div(n, d, d).unwrap_or(n).max(1), leverage: d, limit: 0 };
    let open_funds = crate::gen::native_funds(r, &trader, &open_op);
    let dep_amt = (d / 100).max(1);
    let mut ops: Vec<(String, Op, U)> = vec![
        (trader.clone(), open_op, open_funds),
        (trader.clone(), Op::Close { vamm: v, limit: 0 }, 0),
        (trader.clone(), Op::Deposit { vamm: v, amount: dep_amt }, if r.w.cfg.coll.is_native() { dep_amt } else { 0 }),
        (trader.clone(), Op::Withdraw { vamm: v, amount: 1 }, 0),
        ("keeper".to_string(), Op::PayFunding { vamm: v }, 0),
    ];
    for h in holders.iter().take(2) {
        ops.push(("liquidator".to_string(), Op::Liquidate { vamm: v, trader: h.clone(), limit: 0 }, 0));
    }
    let (p0, o0, g0) = (r.model.paused, vo.open, vo.registered);
    let mut table: BTreeMap<(bool, bool, bool, usize), bool> = BTreeMap::new();
    for pause in [false, true] {
        for open in [true, false] {
            for reg in [true, false] {
                if reg && !g0 && r.obs.registry.len() >= 3 {
                    continue;
                }
                for (oi, (actor, op, funds)) in ops.iter().enumerate() {
                    let (a, o, f) = (actor.clone(), op.clone(), *funds);
                    let rl = &roles;
                    let (set_ok, out, changed) = r.fork(|w| {
                        let set_ok = set_gates(w, rl, v, p0, o0, g0, pause, open, reg);
                        let before = w.dump();
                        let out = w.exec(&a, &o, f, None);
                        let changed = !out.ok && w.dump() != before;
                        (set_ok, out, changed)
                    });
                    if !set_ok {
                        r.ev.count("gate_setup_failed");
                        continue;
                    }
                    table.insert((pause, open, reg, oi), out.ok);
                    let kind = op.kind();
                    let gate_closed = pause || !open || !reg;
                    r.ev.eval(gate_closed, &(kind, pause, open, reg), || json!({"op": kind, "paused": pause, "vamm_open": open, "registered": reg, "accepted": out.ok}));
                    if !gate_closed && out.ok {
                        r.ev.count(&format!("ungated_ok/{}", kind));
                    }
                    let user = matches!(op, Op::Open { .. } | Op::Close { .. } | Op::Deposit { .. } | Op::Withdraw { .. });
                    if pause && user {
                        if out.ok {
                            r.ev.violation("paused_succeeded", kind, json!({"vamm": v, "open": open, "registered": reg}));
                        } else if changed {
                            r.ev.violation("paused_succeeded", &format!("{},state_changed", kind), json!({"vamm": v}));
                        }
                    }
                    if !open && !matches!(op, Op::Deposit { .. }) && out.ok {
                        r.ev.violation("closed_succeeded", kind, json!({"vamm": v, "paused": pause, "registered": reg}));
                    }
                    if !reg && !matches!(op, Op::Deposit { .. } | Op::Close { .. }) && out.ok {
                        r.ev.violation("unregistered_succeeded", kind, json!({"vamm": v, "paused": pause, "open": open}));
                    }
                }
            }
        }
    }
    // availability as a differential: the pause flag must not change the outcome of Liquidate / PayFunding
    for (oi, (_, op, _)) in ops.iter().enumerate() {
        if !matches!(op, Op::Liquidate { .. } | Op::PayFunding { .. }) {
            continue;
        }
        for open in [true, false] {
            for reg in [true, false] {
                if let (Some(a), Some(b)) = (table.get(&(false, open, reg, oi)), table.get(&(true, open, reg, oi))) {
                    if *a {
                        r.ev.count(&format!("keeper_op_available/{}", op.kind()));
                    }
                    if a != b {
                        r.ev.violation("pause_blocks_keeper", op.kind(), json!({"unpaused_ok": a, "paused_ok": b, "open": open, "registered": reg}));
                    }
                }
            }
        }
    }
}

/// shutdown from every subset of registered vAMMs being already closed
pub fn shutdown_subsets(r: &mut Runner) {
    if r.w.cfg.kind != WorldKind::Standard {
        return;
    }
    let roles = current_roles(r);
    let ifund = r.w.addrs.insurance_fund.clone();
    let regd: Vec<usize> = (0..r.w.addrs.vamms.len()).filter(|i| r.obs.vamms[*i].ok && r.obs.vamms[*i].registered && r.obs.vamms[*i].insurance_fund == ifund).collect();
    if regd.is_empty() {
        return;
    }
    // precondition (DESIGN 5.C14): every registered vAMM names this insurance fund as the one allowed to close it;
    // a registered vAMM re-pointed elsewhere cannot be closed by this fund at all
    let foreign = (0..r.w.addrs.vamms.len()).any(|i| r.obs.vamms[i].ok && r.obs.vamms[i].registered && r.obs.vamms[i].insurance_fund != ifund);
    if foreign {
        r.ev.count("shutdown_probe_skipped_foreign_insurance_fund");
        return;
    }
    let n = regd.len();
    for mask in 0..(1u32 << n) {
        let closed_before: Vec<usize> = regd.iter().enumerate().filter(|(j, _)| mask & (1 << j) != 0).map(|(_, i)| *i).collect();
        let rl = &roles;
        let obs_open: Vec<bool> = regd.iter().map(|i| r.obs.vamms[*i].open).collect();
        let rg = regd.clone();
        let cb = closed_before.clone();
        let (setup_ok, call_ok, still_open, err) = r.fork(|w| {
            let mut setup_ok = true;
            for (j, i) in rg.iter().enumerate() {
                let want_open = !cb.contains(i);
                if obs_open[j] != want_open {
                    setup_ok &= w.exec(&rl.vamm_owner[*i], &Op::SetOpen { vamm: *i, open: want_open }, 0, None).ok;
                }
            }
            let out = w.exec(&rl.if_owner, &Op::Shutdown, 0, None);
            let mut still: Vec<usize> = vec![];
            for i in rg.iter() {
                let o = crate::obs::observe_vamm(w, *i);
                if o.open {
                    still.push(*i);
                }
            }
            (setup_ok, out.ok, still, out.err)
        });
        if !setup_ok {
            r.ev.count("shutdown_setup_failed");
            continue;
        }
        r.ev.eval(true, &("shutdown", n, mask), || json!({"shutdown_with_already_closed": closed_before, "registered": regd, "call_ok": call_ok, "left_open": still_open}));
        r.ev.count(&format!("shutdown_subset/{}of{}", closed_before.len(), n));
        if !still_open.is_empty() {
            let class = if closed_before.is_empty() { "none_closed" } else if closed_before.len() == n { "all_closed" } else { "some_closed" };
            r.ev.violation("shutdown_left_open", class, json!({"registered": regd, "closed_before": closed_before, "left_open": still_open, "call_ok": call_ok, "error": crate::run::tail(&err, 120)}));
        }
    }
}
