//! C15 - per-block price band.
use serde_json::json;

use crate::refmodel::*;
use crate::run::{pq_u, Ctx, Ev};
use crate::types::*;
use crate::world::World;

/// band around the price at the end of the last earlier block in which the reserves changed
pub fn band(ctx: &Ctx, v: usize) -> Option<(U, U, U)> {
    let recs = ctx.model.prices.get(v)?;
    let h = ctx.post.height;
    let r = recs.iter().rev().find(|r| r.height < h)?;
    let vo = &ctx.pre.vamms[v];
    let d = vo.decimals.max(1);
    let l = vo.fluct;
    // prices as the vAMM reports them (whole price units): spot >= P_ref x (1 - l) means spot >= the product rounded
    // UP, spot <= P_ref x (1 + l) means spot <= the product rounded down. (Until an independent audit pointed at
    // low-priced markets, where one price unit is a sizeable fraction of the price, the lower edge was rounded down
    // like the vAMM's own - a band up to one unit wider than the statement's.)
    let (lower, upper) = band_bounds(r.price, l, d)?;
    Some((lower, upper, r.price))
}

fn edge(spot: U, lower: U, upper: U) -> &'static str {
    let w = (upper - lower).max(1);
    if spot > upper {
        "above"
    } else if spot < lower {
        "below"
    } else if upper - spot <= w / 10 {
        "near_upper"
    } else if spot - lower <= w / 10 {
        "near_lower"
    } else {
        "inside"
    }
}

pub fn step(ctx: &Ctx, w: &World, ev: &mut Ev) {
    let v = match ctx.step.op.vamm_idx() {
        Some(v) if v < ctx.pre.vamms.len() => v,
        _ => return,
    };
    let vo = &ctx.pre.vamms[v];
    if vo.fluct == 0 || !vo.ok {
        return;
    }
    let (lower, upper, pref) = match band(ctx, v) {
        Some(x) => x,
        None => return,
    };
    let (s0, s1) = (vo.spot, ctx.post.vamms[v].spot);
    let pre_out = s0 < lower || s0 > upper;
    let post_out = s1 < lower || s1 > upper;
    let tib = if ctx.model.trades_in_block[v].0 == ctx.post.height { ctx.model.trades_in_block[v].1.min(4) } else { 0 };
    let det = || json!({"reference_price": pref.to_string(), "lower": lower.to_string(), "upper": upper.to_string(), "spot_pre": s0.to_string(), "spot_post": s1.to_string(), "limit": vo.fluct.to_string(), "trades_in_block": tib});
    match &ctx.step.op {
        Op::SwapInput { can_go_over, dir, .. } if w.cfg.kind == WorldKind::VammDirect => {
            if pre_out {
                ev.eval(true, &("direct_from_outside", ctx.out.ok, edge(s0, lower, upper)), det);
                ev.count("swap_attempt_from_outside_band");
                if ctx.out.ok && w.resolve(&ctx.step.actor) == ctx.pre.vamms[v].margin_engine {
                    ev.violation("open_from_outside", &format!("direct,{}", edge(s0, lower, upper)), det());
                }
            } else if ctx.out.ok {
                ev.eval(edge(s1, lower, upper) != "inside", &("direct", *dir, *can_go_over, edge(s1, lower, upper), tib), det);
                if !*can_go_over && post_out {
                    ev.violation("open_left_band", &format!("direct,{}", edge(s1, lower, upper)), det());
                }
            }
        }
        Op::SwapOutput { .. } if w.cfg.kind == WorldKind::VammDirect => {
            if pre_out && ctx.out.ok && w.resolve(&ctx.step.actor) == ctx.pre.vamms[v].margin_engine {
                ev.eval(true, &("direct_out_from_outside", edge(s0, lower, upper)), det);
                ev.violation("open_from_outside", &format!("direct_output,{}", edge(s0, lower, upper)), det());
            }
        }
        Op::Open { side, .. } if w.cfg.kind == WorldKind::Standard => {
            let actor = w.resolve(&ctx.step.actor);
            if pre_out {
                ev.count("open_attempt_from_outside_band");
            }
            if !ctx.out.ok {
                if pre_out {
                    ev.eval(true, &("open_from_outside_rejected", edge(s0, lower, upper)), det);
                }
                return;
            }
            let holds = ctx.post.position(v, &actor).map(|p| p.size != 0).unwrap_or(false);
            if !holds {
                return;
            }
            ev.eval(edge(s1, lower, upper) != "inside" || pre_out, &("open", *side, edge(s1, lower, upper), tib), det);
            if edge(s1, lower, upper) != "inside" {
                ev.count("open_near_band_edge");
            }
            if post_out {
                ev.violation("open_left_band", &format!("{},{},drift_{}", side.js(), edge(s1, lower, upper), if s0 > pref { "up" } else if s0 < pref { "down" } else { "none" }), det());
            }
            if pre_out {
                ev.violation("open_from_outside", &format!("{},{}", side.js(), edge(s0, lower, upper)), det());
            }
        }
        Op::Close { .. } if w.cfg.kind == WorldKind::Standard => {
            if !ctx.out.ok {
                return;
            }
            let actor = w.resolve(&ctx.step.actor);
            let eng = ctx.pre.eng.clone().unwrap_or_default();
            let d = w.d;
            if eng.partial >= d {
                return;
            }
            let pos = match ctx.pre.position(v, &actor) {
                Some(p) if p.size != 0 => p.clone(),
                _ => return,
            };
            let side = if pos.size > 0 { "long" } else { "short" };
            let gone = ctx.post.position(v, &actor).is_none();
            if gone {
                ev.eval(edge(s1, lower, upper) != "inside", &("whole_close", side, edge(s1, lower, upper), tib), det);
                if post_out {
                    ev.violation("whole_close_left_band", &format!("{},{},drift_{}", side, edge(s1, lower, upper), if s0 > pref { "up" } else if s0 < pref { "down" } else { "none" }), det());
                }
            } else {
                ev.count("partial_close");
                let a = pq_u(ctx.preq, "partial_amount").unwrap_or_else(|| mul_div(pos.size.unsigned_abs(), eng.partial, d).unwrap_or(0));
                let closed = (ctx.post.vamms[v].size - ctx.pre.vamms[v].size).unsigned_abs();
                let p2 = ctx.post.position(v, &actor).cloned();
                let pos_closed = p2.map(|p| (pos.size - p.size).unsigned_abs()).unwrap_or(0);
                ev.eval(true, &("partial_close", side, closed == a, tib), || json!({"partial_close": side, "size": pos.size.to_string(), "configured_fraction_amount": a.to_string(), "base_closed": closed.to_string()}));
                if closed != a || pos_closed != a {
                    // one quote ulp is worth about b/q base ulps: classify the deviation against that bound
                    let po = &ctx.post.vamms[v];
                    let bound = (vo.b / vo.q.max(1)).max(po.b / po.q.max(1)) + 2;
                    let dev = a.abs_diff(closed);
                    let class = if dev <= bound && closed == pos_closed { "within_one_quote_ulp" } else { "larger" };
                    ev.violation("partial_fraction", &format!("{},{}", side, class), json!({"size": pos.size.to_string(), "expected_closed": a.to_string(), "vamm_base_closed": closed.to_string(), "position_base_closed": pos_closed.to_string(), "one_quote_ulp_in_base_ulps_bound": bound.to_string()}));
                }
            }
        }
        _ => {}
    }
}
