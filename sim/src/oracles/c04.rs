//! C04 - closing pays exactly the position's equity; bad debt cannot be cashed out.
use serde_json::json;

use super::engine_refs::*;
use crate::refmodel::*;
use crate::run::{pq_field_i, Ctx, Ev};
use crate::types::*;
use crate::world::World;

pub fn step(ctx: &Ctx, w: &World, ev: &mut Ev) {
    if w.cfg.kind != WorldKind::Standard || !ctx.out.ok {
        return;
    }
    let actor = w.resolve(&ctx.step.actor);
    let d = w.d;
    let kind = ctx.step.op.kind();
    let (eng, ifund) = (w.addrs.engine.clone(), w.addrs.insurance_fund.clone());
    // third clause: a trader-initiated action never lowers the insurance fund by more than the newly recorded prepaid bad debt
    if matches!(ctx.step.op, Op::Open { .. } | Op::Close { .. } | Op::Deposit { .. } | Op::Withdraw { .. }) {
        if let (Some(a), Some(b)) = (&ctx.pre.eng, &ctx.post.eng) {
            let drop = -ctx.delta(&ifund);
            let dbd = b.bad_debt as i128 - a.bad_debt as i128;
            if drop > 0 {
                ev.count("insurance_fund_drawn_by_trader_action");
                ev.eval(true, &("if_draw", kind, dbd > 0), || json!({"op": kind, "insurance_fund_drop": drop.to_string(), "prepaid_bad_debt_delta": dbd.to_string()}));
            }
            if drop > 0 && drop > dbd {
                ev.violation("if_drawdown_le_prepaid", kind, json!({"insurance_fund_drop": drop.to_string(), "prepaid_bad_debt_delta": dbd.to_string()}));
            }
        }
    }
    // an OpenPosition on the opposite side that closes the whole existing position (with or without opening a new
    // one) is a close of that position: one that leaves the trader owing more than the margin must not pay them.
    if let Op::Open { vamm, .. } = &ctx.step.op {
        let v = *vamm;
        if let Some(class) = classify_open(ctx, w) {
            if matches!(class.kind, OpenKind::Reverse | OpenKind::DustReverse) {
                if let Some(pos) = class.pos.clone().filter(|p| p.size != 0) {
                    let f = match ctx.model.cum_ref.get(v).cloned().flatten() {
                        Some(c) => funding_owed(c, pos.checkpoint, pos.size, d),
                        None => owed(ctx.pre, v, &actor, d),
                    };
                    if let (Some(f), Some(realised)) = (f, pnl(pos.dir, class.q_close, pos.notional)) {
                        let e = pos.margin as i128 + realised - f;
                        let side = if pos.size > 0 { "long" } else { "short" };
                        let got = ctx.sent(&eng, &actor);
                        ev.eval(true, &("close_by_open", class.kind, side, sign(e), got > 0), || {
                            json!({"close_by_opposite_order": class.kind.s(), "side": side, "old_margin": pos.margin.to_string(), "realised_pnl": realised.to_string(), "funding_owed": f.to_string(), "old_equity": e.to_string(), "paid_to_trader": got.to_string()})
                        });
                        if e < 0 {
                            ev.count("close_by_open_with_negative_equity");
                            if got > 0 {
                                ev.violation("bad_debt_rejected", &format!("{},{}", class.kind.s(), side), json!({"old_equity": e.to_string(), "paid_to_trader": got.to_string(), "old_margin": pos.margin.to_string(), "realised_pnl": realised.to_string(), "funding_owed": f.to_string()}));
                            }
                        }
                    }
                }
            }
        }
        return;
    }
    let v = match &ctx.step.op {
        Op::Close { vamm, .. } => *vamm,
        _ => return,
    };
    let pos = match ctx.pre.position(v, &actor) {
        Some(p) if p.size != 0 => p.clone(),
        _ => return,
    };
    // funding owed against the harness's own running sum of settlement premiums (falls back to the engine's
    // cumulative fraction when a settlement could not be referenced)
    let f = match ctx.model.cum_ref.get(v).cloned().flatten() {
        Some(c) => funding_owed(c, pos.checkpoint, pos.size, d),
        None => owed(ctx.pre, v, &actor, d),
    };
    let f = match f {
        Some(f) => f,
        None => {
            ev.count("ref_overflow_skipped");
            return;
        }
    };
    if ctx.model.cum_ref.get(v).cloned().flatten().map(|c| c != ctx.pre.vamms[v].cum).unwrap_or(false) {
        ev.count("engine_cumulative_fraction_differs_from_reference");
    }
    let q = quote_moved(ctx, v);
    let moved = ctx.post.vamms[v].size - ctx.pre.vamms[v].size;
    let whole = moved == -pos.size;
    let side = if pos.size > 0 { "long" } else { "short" };
    let vault_short = ctx.sent(&ifund, &eng) > 0;
    if whole {
        let realised = match pnl(pos.dir, q, pos.notional) {
            Some(x) => x,
            None => return,
        };
        let e = pos.margin as i128 + realised - f;
        let paid = ctx.sent(&eng, &actor);
        let fees_on = ctx.pre.vamms[v].toll > 0 || ctx.pre.vamms[v].spread > 0;
        ev.eval(realised != 0 || f != 0 || vault_short, &("whole", side, sign(realised), sign(f), vault_short, fees_on), || {
            json!({"close": "whole", "side": side, "margin": pos.margin.to_string(), "open_notional": pos.notional.to_string(), "quote_exchanged": q.to_string(), "funding_owed": f.to_string(), "equity": e.to_string(), "paid": paid.to_string(), "vault_short": vault_short})
        });
        if vault_short {
            ev.count("close_with_vault_shortfall");
        }
        if f != 0 {
            ev.count("close_with_pending_funding");
        }
        if ctx.post.position(v, &actor).map(|p| p.size != 0 || p.margin != 0 || p.notional != 0).unwrap_or(false) {
            // (an all-zero record is no position; a record that still holds margin or notional is one)
            ev.violation("position_gone", side, json!({"post": format!("{:?}", ctx.post.position(v, &actor))}));
        }
        if e < 0 {
            ev.violation("bad_debt_rejected", &format!("whole,{}", side), json!({"equity": e.to_string()}));
        } else if paid as i128 != e {
            let diff = paid as i128 - e;
            let shape = if diff == f { "diff_eq_funding" } else if diff == -f { "diff_eq_minus_funding" } else { "other" };
            ev.violation(
                "payout_exact",
                &format!("{},funding_{},pnl_{},{}", side, sign(f), sign(realised), shape),
                json!({"paid": paid.to_string(), "equity": e.to_string(), "margin": pos.margin.to_string(), "realised_pnl": realised.to_string(), "funding_owed": f.to_string()}),
            );
        }
    } else {
        // partial close: the bad-debt rule only
        let b = base_moved(ctx, v);
        let spot_pnl = match pq_field_i(ctx.preq, "pnl_spot", "unrealized_pnl") {
            Some(x) => x,
            None => return,
        };
        let r = match smul_div(spot_pnl, b as i128, pos.size.abs()) {
            Some(x) => x,
            None => return,
        };
        let e = pos.margin as i128 + r - f;
        ev.eval(true, &("partial", side, sign(r), sign(f), vault_short, false), || {
            json!({"close": "partial", "side": side, "base_closed": b.to_string(), "realised": r.to_string(), "funding_owed": f.to_string(), "margin": pos.margin.to_string()})
        });
        ev.count("partial_close");
        if e < 0 {
            ev.violation("bad_debt_rejected", &format!("partial,{}", side), json!({"margin_after": e.to_string()}));
        }
    }
}
