//! C17 - quoted amounts equal executed amounts; slippage limits are honoured.
use serde_json::json;

use super::engine_refs::*;
use crate::refmodel::*;
use crate::run::{pq_u, Ctx, Ev};
use crate::types::*;
use crate::world::World;

/// true when the quoted counter-amount is on the wrong side of a non-zero limit
fn wrong_side(receiving: bool, quoted: U, limit: U) -> bool {
    if limit == 0 {
        return false;
    }
    if receiving {
        quoted < limit
    } else {
        quoted > limit
    }
}

fn rel(quoted: U, limit: U) -> &'static str {
    if limit == 0 {
        "none"
    } else if limit == quoted {
        "at"
    } else if limit.checked_add(1) == Some(quoted) {
        "quote_minus_1"
    } else if Some(limit) == quoted.checked_add(1) {
        "quote_plus_1"
    } else if limit < quoted {
        "below"
    } else {
        "above"
    }
}

/// A refused call whose limit was satisfied: is the limit the only reason? (the same call with limit 0 is tried in a
/// fork of the unchanged state by the runner - see `refusal_probe`)
pub fn refusal_probe(r: &mut crate::run::Runner, step: &Step) {
    let (out, _, preq) = match &r.last {
        Some(x) => x.clone(),
        None => return,
    };
    if out.ok {
        return;
    }
    let actor = r.w.resolve(&step.actor);
    let (quoted, limit, receiving, level, unlimited): (Option<U>, U, bool, String, Op) = match &step.op {
        Op::SwapInput { vamm, dir, quote, limit, can_go_over } if r.w.cfg.kind == WorldKind::VammDirect => (pq_u(&preq, "quote"), *limit, *dir == Dir::Add, format!("vamm,input,{}", dir.js()), Op::SwapInput { vamm: *vamm, dir: *dir, quote: *quote, limit: 0, can_go_over: *can_go_over }),
        Op::SwapOutput { vamm, dir, base, limit } if r.w.cfg.kind == WorldKind::VammDirect => (pq_u(&preq, "quote"), *limit, *dir == Dir::Add, format!("vamm,output,{}", dir.js()), Op::SwapOutput { vamm: *vamm, dir: *dir, base: *base, limit: 0 }),
        Op::Open { vamm, side, margin, leverage, limit } if r.w.cfg.kind == WorldKind::Standard => {
            // open / increase / reduce only (the statement's scope); a reversal's limit handling is not asserted
            let n = mul_div(*margin, *leverage, r.w.d).unwrap_or(0);
            let reversal = match r.obs.position(*vamm, &actor) {
                Some(p) if p.size != 0 && p.dir != side.dir() => pq_u(&preq, "out_whole").map(|c| c <= n).unwrap_or(true),
                _ => false,
            };
            if reversal {
                return;
            }
            (pq_u(&preq, "quote_in"), *limit, *side == Side::Buy, format!("engine,open,{}", side.js()), Op::Open { vamm: *vamm, side: *side, margin: *margin, leverage: *leverage, limit: 0 })
        }
        Op::Close { vamm, limit } if r.w.cfg.kind == WorldKind::Standard => {
            let pos = match r.obs.position(*vamm, &actor) {
                Some(p) if p.size != 0 => p.clone(),
                _ => return,
            };
            (pq_u(&preq, "out_whole"), *limit, pos.size > 0, format!("engine,close,{}", if pos.size > 0 { "long" } else { "short" }), Op::Close { vamm: *vamm, limit: 0 })
        }
        Op::Liquidate { vamm, trader, limit } if r.w.cfg.kind == WorldKind::Standard => {
            let t = r.w.resolve(trader);
            let pos = match r.obs.position(*vamm, &t) {
                Some(p) if p.size != 0 => p.clone(),
                _ => return,
            };
            (pq_u(&preq, "out_whole"), *limit, pos.size > 0, format!("engine,liquidate,{}", if pos.size > 0 { "long" } else { "short" }), Op::Liquidate { vamm: *vamm, trader: trader.clone(), limit: 0 })
        }
        _ => return,
    };
    let qv = match quoted {
        Some(x) => x,
        None => return,
    };
    let is_liq = matches!(step.op, Op::Liquidate { .. });
    if limit == 0 || (!is_liq && wrong_side(receiving, qv, limit)) {
        return;
    }
    // the limit is satisfied by the quote, yet the call was refused
    let a = step.actor.clone();
    let f = step.funds;
    let snap_before = r.w.dump();
    // whose position the call acts on (for "did the unlimited call remove the whole position?")
    let subject: Option<(usize, String)> = match &step.op {
        Op::Close { vamm, .. } => Some((*vamm, actor.clone())),
        Op::Liquidate { vamm, trader, .. } => Some((*vamm, r.w.resolve(trader))),
        _ => None,
    };
    let (alt, whole) = r.fork(|w| {
        let o = w.exec(&a, &unlimited, f, None);
        let gone = match &subject {
            Some((v, t)) => w.q(&w.addrs.engine, json!({"position": {"vamm": w.addrs.vamms[*v], "trader": t}})).is_err(),
            None => true,
        };
        (o, gone)
    });
    let _ = snap_before;
    r.ev.eval(true, &("refusal", level.clone(), rel(qv, limit), alt.ok), || json!({"level": level, "quoted": qv.to_string(), "limit": limit.to_string(), "refused_with_limit": true, "accepted_without_limit": alt.ok}));
    if alt.ok {
        // an engine close that turns partial without the limit is outside the statement ("whole-position ClosePosition")
        if let Op::Liquidate { vamm, trader, .. } = &step.op {
            // only a whole-position liquidation carries the caller's limit unchanged
            let t = r.w.resolve(trader);
            let pos_size = r.obs.position(*vamm, &t).map(|p| p.size).unwrap_or(0);
            let moved = alt.events.iter().filter(|e| e.ty == "wasm").flat_map(|e| e.attributes.iter()).find(|a| a.key == "base_asset_amount").and_then(|a| a.value.parse::<u128>().ok()).unwrap_or(0);
            if moved != pos_size.unsigned_abs() || !whole {
                // the unlimited call liquidates partially: the limit that applies is the caller's scaled by the fraction
                let pr = r.obs.eng.as_ref().map(|e| e.partial).unwrap_or(0);
                let exq = alt.events.iter().filter(|e| e.ty == "wasm").flat_map(|e| e.attributes.iter()).find(|a| a.key == "quote_asset_amount").and_then(|a| a.value.parse::<u128>().ok());
                if let (Some(exq), Some(scaled)) = (exq, mul_div(limit, pr, r.w.d)) {
                    if moved != 0 && moved < pos_size.unsigned_abs() && pr > 0 {
                        let tol = scaled / 1_000_000 + 2;
                        let satisfied = if receiving { exq >= scaled.saturating_add(tol) } else { exq.saturating_add(tol) <= scaled };
                        if satisfied {
                            r.ev.violation("limit_refused_although_satisfied", &format!("engine,partial_liquidate,{}", if receiving { "long" } else { "short" }), json!({"executed_quote_without_limit": exq.to_string(), "limit": limit.to_string(), "fraction": pr.to_string(), "scaled_limit": scaled.to_string(), "error_with_limit": crate::run::tail(&out.err, 120)}));
                        }
                    }
                }
                return;
            }
            if wrong_side(receiving, qv, limit) {
                return;
            }
        }
        if let Op::Close { vamm, .. } = &step.op {
            let pos_size = r.obs.position(*vamm, &actor).map(|p| p.size).unwrap_or(0);
            let moved = alt.events.iter().filter(|e| e.ty == "wasm").flat_map(|e| e.attributes.iter()).find(|a| a.key == "base_asset_amount").and_then(|a| a.value.parse::<u128>().ok()).unwrap_or(0);
            if moved != pos_size.unsigned_abs() {
                return;
            }
        }
        r.ev.violation("limit_refused_although_satisfied", &format!("{},{}", level, rel(qv, limit)), json!({"quoted": qv.to_string(), "limit": limit.to_string(), "error_with_limit": crate::run::tail(&out.err, 120)}));
    }
}

pub fn step(ctx: &Ctx, w: &World, ev: &mut Ev) {
    match &ctx.step.op {
        Op::SwapInput { vamm, dir, quote, limit, .. } | Op::SwapOutput { vamm, dir, base: quote, limit } if w.cfg.kind == WorldKind::VammDirect => {
            let v = *vamm;
            let input = matches!(ctx.step.op, Op::SwapInput { .. });
            let (a, b) = (&ctx.pre.vamms[v], &ctx.post.vamms[v]);
            if !a.ok || w.resolve(&ctx.step.actor) != a.margin_engine {
                return;
            }
            let d = a.decimals.max(1);
            let amt = *quote;
            let quoted = pq_u(ctx.preq, "quote");
            let reference = if input { curve_input(*dir, amt, a.q, a.b, d) } else { curve_output(*dir, amt, a.q, a.b, d) };
            // receiving: input+Add (gets base), output+Add (base into pool, gets quote)
            let receiving = *dir == Dir::Add;
            let kind = if input { "input" } else { "output" };
            let rounded = {
                let k = k_scaled(a.q, a.b, d) * u256(d);
                let den = if input { if *dir == Dir::Add { a.q.saturating_add(amt) } else { a.q.saturating_sub(amt) } } else if *dir == Dir::Add { a.b.saturating_add(amt) } else { a.b.saturating_sub(amt) };
                den != 0 && !(k % u256(den)).is_zero()
            };
            if let Some(qv) = quoted {
                ev.eval(amt > 0, &("vamm", kind, *dir, rel(qv, *limit), rounded, ctx.out.ok), || {
                    json!({"level": "vamm", "swap": kind, "direction": dir.js(), "amount": amt.to_string(), "quoted": qv.to_string(), "limit": limit.to_string(), "executed": ctx.out.ok})
                });
                if let Some(rv) = reference {
                    if rv != qv {
                        ev.violation("quote_ne_exec", &format!("vamm,{},{},query_vs_curve", kind, dir.js()), json!({"quoted": qv.to_string(), "reference": rv.to_string(), "amount": amt.to_string(), "q": a.q.to_string(), "b": a.b.to_string()}));
                    }
                }
                if wrong_side(receiving, qv, *limit) {
                    ev.count("limit_on_wrong_side");
                    if ctx.out.ok {
                        ev.violation("limit_ignored", &format!("vamm,{},{},{}", kind, dir.js(), rel(qv, *limit)), json!({"quoted": qv.to_string(), "limit": limit.to_string()}));
                    }
                }
            }
            if !ctx.out.ok {
                if a.q != b.q || a.b != b.b || a.size != b.size {
                    ev.violation("refusal_changed_state", &format!("vamm,{}", kind), json!({}));
                }
                return;
            }
            let (dq, db) = (a.q.abs_diff(b.q), a.b.abs_diff(b.b));
            let (req_moved, counter) = if input { (dq, db) } else { (db, dq) };
            if req_moved != amt {
                ev.violation("requested_side_inexact", &format!("vamm,{},{}", kind, dir.js()), json!({"requested": amt.to_string(), "moved": req_moved.to_string()}));
            }
            if let Some(qv) = quoted {
                if counter != qv {
                    ev.violation("quote_ne_exec", &format!("vamm,{},{},exec_vs_query", kind, dir.js()), json!({"quoted": qv.to_string(), "executed": counter.to_string()}));
                }
            }
            if *limit != 0 && wrong_side(receiving, counter, *limit) {
                ev.violation("limit_ignored", &format!("vamm,{},{},executed", kind, dir.js()), json!({"executed": counter.to_string(), "limit": limit.to_string()}));
            }
        }
        Op::Open { vamm, side, limit, .. } if w.cfg.kind == WorldKind::Standard => {
            let v = *vamm;
            let class = match classify_open(ctx, w) {
                Some(c) => c,
                None => return,
            };
            if !matches!(class.kind, OpenKind::Fresh | OpenKind::Increase | OpenKind::Reduce) {
                return;
            }
            let qv = match pq_u(ctx.preq, "quote_in") {
                Some(x) => x,
                None => return,
            };
            let receiving = *side == Side::Buy;
            ev.eval(class.n > 0, &("engine_open", class.kind, *side, rel(qv, *limit), ctx.out.ok), || {
                json!({"level": "engine", "open": class.kind.s(), "side": side.js(), "notional": class.n.to_string(), "quoted_base": qv.to_string(), "limit": limit.to_string(), "executed": ctx.out.ok})
            });
            if wrong_side(receiving, qv, *limit) {
                ev.count("limit_on_wrong_side");
                if ctx.out.ok {
                    ev.violation("limit_ignored", &format!("engine,{},{},{}", class.kind.s(), side.js(), rel(qv, *limit)), json!({"quoted": qv.to_string(), "limit": limit.to_string()}));
                }
            }
            if ctx.out.ok {
                let db = base_moved(ctx, v);
                if db != qv {
                    ev.violation("quote_ne_exec", &format!("engine,{},{}", class.kind.s(), side.js()), json!({"quoted": qv.to_string(), "executed": db.to_string()}));
                }
                if quote_moved(ctx, v) != class.n {
                    ev.violation("requested_side_inexact", &format!("engine,{},{}", class.kind.s(), side.js()), json!({"requested": class.n.to_string(), "moved": quote_moved(ctx, v).to_string()}));
                }
            }
        }
        Op::Liquidate { vamm, trader, limit } if w.cfg.kind == WorldKind::Standard => {
            // whole-position liquidation: the caller's limit reaches the vAMM's closing swap unchanged
            let v = *vamm;
            let t = w.resolve(trader);
            let pos = match ctx.pre.position(v, &t) {
                Some(p) if p.size != 0 => p.clone(),
                _ => return,
            };
            let qv = match pq_u(ctx.preq, "out_whole") {
                Some(x) => x,
                None => return,
            };
            let moved = ctx.post.vamms[v].size - ctx.pre.vamms[v].size;
            let whole = ctx.out.ok && moved == -pos.size && ctx.post.position(v, &t).is_none();
            let receiving = pos.size > 0;
            if *limit != 0 {
                ev.eval(true, &("engine_liquidate", receiving, rel(qv, *limit), ctx.out.ok, whole), || {
                    json!({"level": "engine", "liquidate": if receiving { "long" } else { "short" }, "size": pos.size.to_string(), "quoted_quote": qv.to_string(), "limit": limit.to_string(), "executed": ctx.out.ok, "whole": whole})
                });
            }
            // partial liquidation: the fraction `partial` of the position is traded under the caller's limit scaled by the
            // same fraction (tolerance: one millionth + 2 units for the rounding of the two scalings)
            let pr = ctx.pre.eng.as_ref().map(|e| e.partial).unwrap_or(0);
            if ctx.out.ok && !whole && *limit != 0 && moved != 0 && moved.unsigned_abs() < pos.size.unsigned_abs() && pr > 0 {
                if let Some(scaled) = mul_div(*limit, pr, w.d) {
                    let tol = scaled / 1_000_000 + 2;
                    let dq = quote_moved(ctx, v);
                    ev.eval(true, &("engine_partial_liquidate", receiving, dq >= scaled), || {
                        json!({"level": "engine", "partial_liquidate": if receiving { "long" } else { "short" }, "fraction": pr.to_string(), "limit": limit.to_string(), "scaled_limit": scaled.to_string(), "executed_quote": dq.to_string()})
                    });
                    let bad = if receiving { dq.saturating_add(tol) < scaled } else { dq > scaled.saturating_add(tol) };
                    if bad {
                        ev.violation("limit_ignored", &format!("engine,partial_liquidate,{}", if receiving { "long" } else { "short" }), json!({"executed_quote": dq.to_string(), "limit": limit.to_string(), "fraction": pr.to_string(), "scaled_limit": scaled.to_string()}));
                    }
                }
            }
            if whole {
                if wrong_side(receiving, qv, *limit) {
                    ev.violation("limit_ignored", &format!("engine,liquidate,{},{}", if receiving { "long" } else { "short" }, rel(qv, *limit)), json!({"quoted": qv.to_string(), "limit": limit.to_string()}));
                }
                let dq = quote_moved(ctx, v);
                if dq != qv {
                    ev.violation("quote_ne_exec", &format!("engine,liquidate,{}", if receiving { "long" } else { "short" }), json!({"quoted": qv.to_string(), "executed": dq.to_string()}));
                }
            }
        }
        Op::Close { vamm, limit } if w.cfg.kind == WorldKind::Standard => {
            let v = *vamm;
            let actor = w.resolve(&ctx.step.actor);
            let pos = match ctx.pre.position(v, &actor) {
                Some(p) if p.size != 0 => p.clone(),
                _ => return,
            };
            let qv = match pq_u(ctx.preq, "out_whole") {
                Some(x) => x,
                None => return,
            };
            // whole close only: the vAMM's net size moves by exactly the position's size
            let moved = ctx.post.vamms[v].size - ctx.pre.vamms[v].size;
            let whole = ctx.out.ok && moved == -pos.size;
            let receiving = pos.size > 0;
            ev.eval(true, &("engine_close", receiving, rel(qv, *limit), ctx.out.ok), || {
                json!({"level": "engine", "close": if receiving { "long" } else { "short" }, "size": pos.size.to_string(), "quoted_quote": qv.to_string(), "limit": limit.to_string(), "executed": ctx.out.ok})
            });
            if whole {
                if wrong_side(receiving, qv, *limit) {
                    ev.violation("limit_ignored", &format!("engine,close,{},{}", if receiving { "long" } else { "short" }, rel(qv, *limit)), json!({"quoted": qv.to_string(), "limit": limit.to_string()}));
                }
                let dq = quote_moved(ctx, v);
                if dq != qv {
                    ev.violation("quote_ne_exec", &format!("engine,close,{}", if receiving { "long" } else { "short" }), json!({"quoted": qv.to_string(), "executed": dq.to_string()}));
                }
            }
        }
        _ => {}
    }
}
