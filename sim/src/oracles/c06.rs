//! C06 - liquidation only of under-margined positions, with exact payouts.
use serde_json::json;

use super::engine_refs::*;
use crate::refmodel::*;
use crate::run::{pq_field_i, pq_field_u, pq_u, Ctx, Ev, PreQ};
use crate::types::*;
use crate::world::World;

pub struct LiqRef {
    pub ratio: i128,
    pub binding: &'static str,
    pub over_spread: bool,
}

/// the liquidation margin ratio as the statement defines it, from pre-state queries
pub fn ratio_liq(preq: &PreQ, margin: U, f: i128, spot_price: U, d: U, twap_ref: Option<Option<(U, i128)>>) -> Option<LiqRef> {
    ratio_liq_own(preq, margin, f, spot_price, d, twap_ref, None)
}

/// `own`: (direction, |size|, open notional) of the position - with it the spot and oracle valuations are the harness's
/// own (the vAMM's quote for the closing trade, the oracle price times the size) instead of the engine's PnL queries
pub fn ratio_liq_own(preq: &PreQ, margin: U, f: i128, spot_price: U, d: U, twap_ref: Option<Option<(U, i128)>>, own: Option<(Dir, U, U)>) -> Option<LiqRef> {
    ratio_liq_own_price(preq, margin, f, spot_price, d, twap_ref, own, None)
}

/// `oracle_price`: the latest price submitted to the feed according to the harness's own record (else the vAMM's
/// `UnderlyingPrice` answer is taken)
#[allow(clippy::too_many_arguments)]
pub fn ratio_liq_own_price(preq: &PreQ, margin: U, f: i128, spot_price: U, d: U, twap_ref: Option<Option<(U, i128)>>, own: Option<(Dir, U, U)>, oracle_price: Option<U>) -> Option<LiqRef> {
    let (sn, sp) = match (own, pq_u(preq, "out_whole")) {
        (Some((dir, _, open)), Some(q)) => (q, pnl(dir, q, open)?),
        _ => (pq_field_u(preq, "pnl_spot", "position_notional")?, pq_field_i(preq, "pnl_spot", "unrealized_pnl")?),
    };
    // the 15-minute TWAP figures: the harness's own when it could compute them (Some(None): unbounded, the spot
    // valuation is the smaller one), else the engine's query
    let twap = match twap_ref {
        Some(x) => x,
        None => Some((pq_field_u(preq, "pnl_twap", "position_notional")?, pq_field_i(preq, "pnl_twap", "unrealized_pnl")?)),
    };
    let (mut which, n, pl) = match twap {
        Some((tn, tp)) if sp.unsigned_abs() > tp.unsigned_abs() => ("twap", tn, tp),
        _ => ("spot", sn, sp),
    };
    let mut r = ratio_ext(margin, pl, f, n, d)?;
    let mut over = false;
    if let Some(op) = oracle_price.or_else(|| pq_u(preq, "underlying")) {
        if op > 0 {
            let dev = smul_div(spot_price as i128 - op as i128, d as i128, op as i128)?;
            over = dev.unsigned_abs() >= d / 10;
            if over {
                let (on, opl) = match own {
                    Some((dir, size, open)) => {
                        let on = mul_div(op, size, d)?;
                        (on, pnl(dir, on, open)?)
                    }
                    None => (pq_field_u(preq, "pnl_oracle", "position_notional")?, pq_field_i(preq, "pnl_oracle", "unrealized_pnl")?),
                };
                let ro = ratio_ext(margin, opl, f, on, d)?;
                if ro > r {
                    r = ro;
                    which = "oracle";
                }
            }
        }
    }
    Some(LiqRef { ratio: r, binding: which, over_spread: over })
}

pub fn step(ctx: &Ctx, w: &World, ev: &mut Ev) {
    if w.cfg.kind != WorldKind::Standard {
        return;
    }
    let (v, trader) = match &ctx.step.op {
        Op::Liquidate { vamm, trader, .. } => (*vamm, w.resolve(trader)),
        _ => return,
    };
    let d = w.d;
    let liquidator = w.resolve(&ctx.step.actor);
    let eng = match &ctx.pre.eng {
        Some(e) => e.clone(),
        None => return,
    };
    let pos = match ctx.pre.position(v, &trader) {
        Some(p) if p.size != 0 => p.clone(),
        _ => {
            ev.eval(false, &("nopos", ctx.out.ok), || json!({}));
            if ctx.out.ok {
                ev.violation("only_when_under", "no_position", json!({"trader": trader}));
            }
            return;
        }
    };
    let f = match owed(ctx.pre, v, &trader, d) {
        Some(x) => x,
        None => return,
    };
    let own = ctx.model.prices.get(v).map(|recs| twap_output_ref(recs, pos.dir, pos.size.unsigned_abs(), 900, ctx.post.time, ctx.pre.vamms[v].decimals.max(1))).unwrap_or(TwapRef::Unknown);
    // the statement does not say how the 15-minute average is rounded: when the engine's figure is within one unit of
    // the harness's own (which truncates), it is a rounding of the same average and is taken instead; anything further
    // away is a different average and the harness's own stands
    let own = match (own, pq_field_u(ctx.preq, "pnl_twap", "position_notional")) {
        (TwapRef::Value(tn), Some(en)) if tn != en && tn.abs_diff(en) <= 1 => {
            ev.count("twap15_engine_figure_within_one_unit_taken");
            TwapRef::Value(en)
        }
        (o, _) => o,
    };
    let twap_ref: Option<Option<(U, i128)>> = match own {
        TwapRef::Value(tn) => pnl(pos.dir, tn, pos.notional).map(|tp| Some((tn, tp))),
        TwapRef::Unbounded => Some(None),
        TwapRef::Unknown => None,
    };
    match (&twap_ref, pq_field_u(ctx.preq, "pnl_twap", "position_notional")) {
        (Some(Some((tn, _))), Some(en)) => ev.count(if *tn == en { "twap15_reference_equals_engine_figure" } else { "twap15_reference_differs_from_engine_figure" }),
        (Some(None), _) => ev.count("twap15_unbounded_spot_binding"),
        (None, _) => ev.count("twap15_reference_unavailable"),
        _ => {}
    }
    // how often the engine's own figures agree with the harness's (reach only)
    if let (Some(q), Some(en)) = (pq_u(ctx.preq, "out_whole"), pq_field_u(ctx.preq, "pnl_spot", "position_notional")) {
        ev.count(if q == en { "spot_notional_reference_equals_engine_figure" } else { "spot_notional_reference_differs_from_engine_figure" });
    }
    if let (Some(op), Some(en)) = (pq_u(ctx.preq, "underlying"), pq_field_u(ctx.preq, "pnl_oracle", "position_notional")) {
        let own_on = mul_div(op, pos.size.unsigned_abs(), d).unwrap_or(0);
        ev.count(if own_on == en { "oracle_notional_reference_equals_engine_figure" } else { "oracle_notional_reference_differs_from_engine_figure" });
    }
    // "the oracle" is the feed: its latest price is asked of the feed itself; the vAMM's `UnderlyingPrice` answer is only
    // compared with it (a vAMM that passes something else on - a TWAP, a stale figure - makes the engine decide on a
    // price that is not the oracle's). Without an answer of the feed (no submission yet) the vAMM's answer stands.
    let own_price = pq_u(ctx.preq, "feed_latest");
    if let (Some(a), Some(b)) = (own_price, pq_u(ctx.preq, "underlying")) {
        ev.count(if a == b { "oracle_price_feed_equals_vamm_answer" } else { "oracle_price_feed_differs_from_vamm_answer" });
    }
    let lr = match ratio_liq_own_price(ctx.preq, pos.margin, f, ctx.pre.vamms[v].spot, d, twap_ref, Some((pos.dir, pos.size.unsigned_abs(), pos.notional)), own_price) {
        Some(x) => x,
        None => {
            ev.count("ratio_unavailable");
            // without the reference ratio nothing can be said about "only when under"
            return;
        }
    };
    let side = if pos.size > 0 { "long" } else { "short" };
    let m = eng.maintenance as i128;
    let bucket = if lr.ratio > m { if lr.ratio == m + 1 { "maint_plus_1" } else { "above" } } else if lr.ratio == m { "at" } else if lr.ratio >= 0 { "below_pos" } else { "negative" };
    let pclass = if eng.partial == 0 { "p0" } else if eng.partial >= d { "p1" } else { "pfrac" };
    ev.eval(true, &(ctx.out.ok, lr.binding, bucket, pclass, side), || {
        json!({"liquidate": trader, "ratio_liq": lr.ratio.to_string(), "maintenance": m.to_string(), "binding": lr.binding, "over_spread": lr.over_spread, "accepted": ctx.out.ok, "partial_ratio": eng.partial.to_string()})
    });
    ev.count(&format!("liq_attempt/{}/{}", bucket, if ctx.out.ok { "ok" } else { "err" }));
    ev.count(&format!("liq_binding/{}", lr.binding));
    if !ctx.out.ok {
        return;
    }
    if lr.ratio > m {
        ev.violation("only_when_under", &format!("{},{},{}", lr.binding, side, if eng.initial == eng.maintenance { "init_eq_maint" } else { "init_ne_maint" }), json!({"ratio_liq": lr.ratio.to_string(), "maintenance": m.to_string()}));
    }
    let q = quote_moved(ctx, v);
    let penalty = mul_div(q, eng.liq_fee, d).unwrap_or(0);
    let half = penalty / 2;
    let engine = w.addrs.engine.clone();
    let ifund = w.addrs.insurance_fund.clone();
    let after = ctx.post.position(v, &trader).cloned();
    let quote_branch = pq_u(ctx.preq, "out_partial").map(|x| x > pos.notional).unwrap_or(false);
    match after {
        None => {
            // full liquidation
            ev.count("full_liquidation");
            let realised = pnl(pos.dir, q, pos.notional).unwrap_or(0);
            let e = pos.margin as i128 + realised - f;
            let got = ctx.sent(&engine, &liquidator);
            if got != half {
                ev.violation("full_payout", &format!("liquidator,{}", side), json!({"liquidator_received": got.to_string(), "expected": half.to_string(), "quote_exchanged": q.to_string()}));
            }
            let to_if = ctx.sent(&engine, &ifund);
            let exp_if = (e.max(0) - half as i128).max(0) as u128;
            if to_if != exp_if {
                let diff = to_if as i128 - exp_if as i128;
                let shape = if diff == f { "diff_eq_funding" } else { "other" };
                ev.violation("full_payout", &format!("insurance_fund,{},{}", side, shape), json!({"to_insurance_fund": to_if.to_string(), "expected": exp_if.to_string(), "equity": e.to_string(), "liquidator_fee": half.to_string()}));
            }
            if trader != liquidator && (ctx.inflow(&trader) != 0 || ctx.delta(&trader) != 0) {
                ev.violation("full_trader_nothing", side, json!({"trader_received": ctx.inflow(&trader).to_string()}));
            }
        }
        Some(p2) => {
            ev.count("partial_liquidation");
            let a = mul_div(pos.size.unsigned_abs(), eng.partial, d).unwrap_or(0);
            let exp = pos.size.unsigned_abs() - a;
            if p2.size.signum() * pos.size.signum() < 0 || p2.size.unsigned_abs() != exp {
                ev.violation("partial_size", &format!("{},{}", side, if quote_branch { "quote_branch" } else { "base_branch" }), json!({"size_pre": pos.size.to_string(), "size_post": p2.size.to_string(), "expected_abs": exp.to_string()}));
            }
            let got = ctx.sent(&engine, &liquidator);
            let to_if = ctx.sent(&engine, &ifund);
            if got != half || to_if != half {
                ev.violation("partial_payout", &format!("{},{}", side, if quote_branch { "quote_branch" } else { "base_branch" }), json!({"liquidator_received": got.to_string(), "insurance_fund_received": to_if.to_string(), "expected_each": half.to_string()}));
            }
        }
    }
}
