//! C13: a cw20 deployment and an otherwise identical native deployment driven in lock-step.
//! Each step runs on the cw20 twin first; what it pulled from the caller is attached to the native call.

use serde_json::json;

use crate::batch::{collect, prop_stream, RunResult};
use crate::gen::{gen_world, profile_for, Gen};
use crate::obs::Obs;
use crate::prng::Rng;
use crate::refmodel::mul_div;
use crate::run::Runner;
use crate::types::*;

fn native_cfg(cfg: &WorldCfg) -> WorldCfg {
    let mut c = cfg.clone();
    c.coll = Coll::Native;
    c.allowance = None;
    c
}

struct Twin {
    a: Runner,
    b: Runner,
    diverged: bool,
}

fn party(r: &Runner, name: &str) -> String {
    if name == r.w.addrs.engine {
        "vault".into()
    } else if name == r.w.addrs.insurance_fund {
        "insurance_fund".into()
    } else if name == r.w.addrs.fee_pool || r.obs.eng.as_ref().map(|e| e.fee_pool == name).unwrap_or(false) {
        "fee_pool".into()
    } else if r.w.addrs.cw20.as_deref() == Some(name) {
        "token".into()
    } else {
        name.to_string()
    }
}

fn deltas(r: &Runner, pre: &Obs, post: &Obs) -> std::collections::BTreeMap<String, i128> {
    let mut m = std::collections::BTreeMap::new();
    let mut names: std::collections::BTreeSet<&String> = pre.bal.keys().collect();
    names.extend(post.bal.keys());
    for n in names {
        let d = post.bal(n) as i128 - pre.bal(n) as i128;
        if d != 0 {
            *m.entry(party(r, n)).or_insert(0) += d;
        }
    }
    m
}

impl Twin {
    fn new(cfg: &WorldCfg) -> Result<Twin, String> {
        let a = Runner::new(cfg, "C13")?;
        let b = Runner::new(&native_cfg(cfg), "C13")?;
        Ok(Twin { a, b, diverged: false })
    }

    fn apply(&mut self, step: &Step) {
        let pre_a = self.a.obs.clone();
        let pre_b = self.b.obs.clone();
        let undo = if step.op.is_engine_user_op() { Some((self.a.w.snapshot(), self.a.model.clone())) } else { None };
        self.a.apply(step);
        let (out_a, ledger_a, preq_a) = self.a.last.clone().unwrap();
        let actor = self.a.w.resolve(&step.actor);
        let user = step.op.is_engine_user_op();
        if user && !out_a.ok {
            // Rejected by the cw20 twin. Operations that never pull collateral from the caller (nothing to attach) are
            // still forwarded with no funds: the native twin must reject them too. For the others the statement's
            // proviso is undefined and the step is not forwarded.
            let pulls_nothing = match &step.op {
                Op::PayFunding { .. } | Op::Liquidate { .. } | Op::Withdraw { .. } => true,
                Op::Close { vamm, .. } => pre_a.vamms.get(*vamm).map(|v| v.toll == 0 && v.spread == 0).unwrap_or(false),
                _ => false,
            };
            if pulls_nothing && !self.diverged {
                let snap_b = self.b.w.snapshot();
                let model_b = self.b.model.clone();
                let mut sb = step.clone();
                sb.funds = 0;
                self.b.apply(&sb);
                let (out_b, _, _) = self.b.last.clone().unwrap();
                let kind = step.op.kind();
                self.a.ev.eval(true, &("rejected_by_cw20", kind, out_b.ok), || json!({"op": kind, "cw20_ok": false, "native_ok": out_b.ok}));
                if out_b.ok {
                    self.a.ev.violation("outcome_diverged", &format!("{},cw20_rejected_native_accepted", kind), json!({"cw20_error": crate::run::tail(&out_a.err, 160), "native_ok": true}));
                    // undo the native twin so that the pair stays comparable
                    self.b.w.restore(&snap_b);
                    if let Some((dh, dt)) = step.clock {
                        self.b.w.advance(dh, dt);
                    }
                    self.b.model = model_b;
                    self.b.obs = pre_b;
                    self.b.obs.height = self.b.w.height();
                    self.b.obs.time = self.b.w.now();
                }
                return;
            }
            if let Some((dh, dt)) = step.clock {
                self.b.w.advance(dh, dt);
                self.b.obs.height = self.b.w.height();
                self.b.obs.time = self.b.w.now();
            }
            self.a.ev.count("not_forwarded_rejected_by_cw20_twin");
            return;
        }
        let g: U = if user { ledger_a.iter().filter(|x| x.from == actor).map(|x| x.amount).sum() } else { 0 };
        if user && g > self.b.obs.bal(&actor) {
            // the native caller cannot attach what the cw20 twin pulled (cw20 pulls after paying out, native funds
            // are attached up front): the statement's proviso cannot be met, so the step is not forwarded and the
            // cw20 twin is rolled back
            if let Some((snap, model)) = undo {
                self.a.w.restore(&snap);
                if let Some((dh, dt)) = step.clock {
                    self.a.w.advance(dh, dt);
                    self.b.w.advance(dh, dt);
                    self.b.obs.height = self.b.w.height();
                    self.b.obs.time = self.b.w.now();
                }
                self.a.model = model;
                self.a.obs = pre_a;
                self.a.obs.height = self.a.w.height();
                self.a.obs.time = self.a.w.now();
                self.a.ev.count("not_forwarded_native_caller_cannot_attach");
            } else {
                self.diverged = true;
            }
            return;
        }
        let mut sb = step.clone();
        sb.funds = g;
        self.b.apply(&sb);
        let (out_b, _, _) = self.b.last.clone().unwrap();
        if self.diverged || !user {
            return;
        }
        // ---- comparison
        let kind = step.op.kind();
        let d = self.a.w.d;
        let sub: String = match &step.op {
            Op::Open { vamm, side, margin, leverage, .. } => {
                let n = mul_div(*margin, *leverage, d).unwrap_or(0);
                match pre_a.position(*vamm, &actor) {
                    None => "fresh".into(),
                    Some(p) if p.dir == side.dir() => "increase".into(),
                    Some(p) => {
                        let cur = crate::run::pq_u(&preq_a, "out_whole").unwrap_or(0);
                        if p.size != 0 && cur > n {
                            "reduce".into()
                        } else {
                            "reverse".into()
                        }
                    }
                }
            }
            _ => kind.to_string(),
        };
        let da = deltas(&self.a, &pre_a, &self.a.obs);
        let db = deltas(&self.b, &pre_b, &self.b.obs);
        let moved = !da.is_empty();
        let fees_on = pre_a.vamms.iter().any(|v| v.toll > 0 || v.spread > 0);
        let trader_delta = *da.get(&actor).unwrap_or(&0);
        let flow = if trader_delta < 0 { "pays" } else if trader_delta > 0 { "receives" } else { "flat" };
        let ev = &mut self.a.ev;
        ev.eval(moved, &(sub.clone(), flow, fees_on, out_b.ok), || json!({"op": serde_json::to_value(&step.op).unwrap_or_default(), "sub_kind": sub, "attached_to_native_call": g.to_string(), "cw20_ok": out_a.ok, "native_ok": out_b.ok, "cw20_deltas": da.iter().map(|(k, v)| (k.clone(), v.to_string())).collect::<std::collections::BTreeMap<_, _>>()}));
        if out_a.ok != out_b.ok {
            let why = if out_b.err.contains("insufficient") { "funds_insufficient" } else if out_b.err.contains("excessive") { "funds_excessive" } else if out_b.err.contains("transfer failure") || out_b.err.contains("Cannot Sub") { "native_payout_failed" } else { "other" };
            // what the position was worth: a reversal that needs a top-up is the interesting case
            let topup = trader_delta < 0;
            let _ = topup;
            ev.violation("outcome_diverged", &format!("{},{}", sub, why), json!({"cw20_ok": out_a.ok, "native_ok": out_b.ok, "attached": g.to_string(), "native_error": crate::run::tail(&out_b.err, 160), "cw20_trader_delta": trader_delta.to_string()}));
            // the native twin refused and is unchanged: roll the cw20 twin back so that the pair stays comparable
            match undo {
                Some((snap, model)) if out_a.ok && !out_b.ok => {
                    self.a.w.restore(&snap);
                    if let Some((dh, dt)) = step.clock {
                        self.a.w.advance(dh, dt);
                    }
                    self.a.model = model;
                    self.a.obs = pre_a;
                    self.a.obs.height = self.a.w.height();
                    self.a.obs.time = self.a.w.now();
                    self.a.ev.count("resynchronised_after_native_refusal");
                }
                _ => self.diverged = true,
            }
            return;
        }
        // positions
        for (k, pa) in self.a.obs.pos.iter() {
            let pb = self.b.obs.pos.get(k);
            if pb != Some(pa) {
                ev.violation("position_diverged", &format!("{},{}", sub, if k.1 == actor { "caller" } else { "other" }), json!({"vamm": k.0, "trader": k.1, "cw20": format!("{:?}", pa), "native": format!("{:?}", pb)}));
                self.diverged = true;
                return;
            }
        }
        if self.b.obs.pos.len() != self.a.obs.pos.len() {
            ev.violation("position_diverged", &format!("{},extra", sub), json!({}));
            self.diverged = true;
            return;
        }
        for i in 0..self.a.obs.vamms.len() {
            let (x, y) = (&self.a.obs.vamms[i], &self.b.obs.vamms[i]);
            if (x.q, x.b, x.size, x.open, x.next_funding, x.cum) != (y.q, y.b, y.size, y.open, y.next_funding, y.cum) {
                ev.violation("vamm_diverged", &sub, json!({"vamm": i, "cw20": [x.q.to_string(), x.b.to_string(), x.size.to_string()], "native": [y.q.to_string(), y.b.to_string(), y.size.to_string()]}));
                self.diverged = true;
                return;
            }
        }
        if let (Some(x), Some(y)) = (&self.a.obs.eng, &self.b.obs.eng) {
            if (x.oi, x.bad_debt) != (y.oi, y.bad_debt) {
                ev.violation("vamm_diverged", &format!("{},engine_state", sub), json!({"cw20": [x.oi.to_string(), x.bad_debt.to_string()], "native": [y.oi.to_string(), y.bad_debt.to_string()]}));
                self.diverged = true;
                return;
            }
        }
        if da != db {
            let mut who = "other";
            for (k, v) in da.iter() {
                if db.get(k) != Some(v) {
                    who = if *k == actor { "caller" } else if k == "vault" { "vault" } else if k == "insurance_fund" { "insurance_fund" } else if k == "fee_pool" { "fee_pool" } else { "other" };
                    break;
                }
            }
            ev.violation("delta_diverged", &format!("{},{}", sub, who), json!({"cw20": da.iter().map(|(k, v)| (k.clone(), v.to_string())).collect::<std::collections::BTreeMap<_, _>>(), "native": db.iter().map(|(k, v)| (k.clone(), v.to_string())).collect::<std::collections::BTreeMap<_, _>>(), "attached": g.to_string()}));
            self.diverged = true;
        }
    }
}

fn finish(t: Twin, res: &mut RunResult) {
    let mut a = t.a;
    // harness errors of the native twin count too
    for e in t.b.ev.harness_errors.iter() {
        a.ev.harness_error(format!("native twin: {}", e));
    }
    a.tx_ok += t.b.tx_ok;
    a.tx_err += t.b.tx_err;
    a.tx_panic += t.b.tx_panic;
    collect(res, a);
}

pub fn one_run(seed: u64, run: u64, keep_log: bool) -> RunResult {
    let prop = "C13";
    let mut rng = Rng::new(seed, prop_stream(prop), run);
    let cfg = gen_world(&mut rng, prop);
    let profile = profile_for(prop);
    let n_steps = rng.range(profile.min_steps as u64, profile.max_steps as u64) as usize;
    let mut res = RunResult { run, world: Some(cfg.clone()), ..Default::default() };
    let mut t = match Twin::new(&cfg) {
        Ok(t) => t,
        Err(e) => {
            res.ev.property = prop.to_string();
            res.ev.harness_error(format!("world build failed: {}", e));
            return res;
        }
    };
    t.a.keep_log = keep_log;
    let mut g = Gen::new(profile);
    for _ in 0..n_steps {
        let st = g.next(&mut t.a, &mut rng);
        t.apply(&st);
        res.steps.push(st);
    }
    finish(t, &mut res);
    res
}

pub fn run_history(cfg: &WorldCfg, steps: &[Step], keep_log: bool) -> RunResult {
    let mut res = RunResult { world: Some(cfg.clone()), steps: steps.to_vec(), ..Default::default() };
    let mut t = match Twin::new(cfg) {
        Ok(t) => t,
        Err(e) => {
            res.ev.property = "C13".to_string();
            res.ev.harness_error(format!("world build failed: {}", e));
            return res;
        }
    };
    t.a.keep_log = keep_log;
    for st in steps.iter() {
        t.apply(st);
    }
    finish(t, &mut res);
    res
}
