//! C13: twin deployments (cw20 / native) driven in lock-step.  (filled in below)
use crate::batch::RunResult;
use crate::types::*;

pub fn one_run(_seed: u64, run: u64, _keep_log: bool) -> RunResult {
    RunResult { run, ..Default::default() }
}
pub fn run_history(_cfg: &WorldCfg, _steps: &[Step], _keep_log: bool) -> RunResult {
    RunResult::default()
}
