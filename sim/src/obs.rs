//! Observation of the whole system through public queries (plus the raw dump for "unchanged" and the census).

use serde_json::{json, Value};
use std::collections::BTreeMap;

use crate::types::*;
use crate::world::{Dump, World};

pub fn pu(v: &Value) -> U {
    v.as_str().and_then(|s| s.parse::<U>().ok()).unwrap_or(0)
}
/// signed decimal string -> i128 ("-0" is 0)
pub fn pi(v: &Value) -> i128 {
    let s = v.as_str().unwrap_or("0");
    let (neg, digits) = match s.strip_prefix('-') {
        Some(r) => (true, r),
        None => (false, s),
    };
    // values beyond the reference range saturate; oracles treat anything above 10^36 as "out of range - skip"
    let m: i128 = match digits.parse::<u128>() {
        Ok(x) => i128::try_from(x).unwrap_or(i128::MAX),
        Err(_) => 0,
    };
    if neg {
        -m
    } else {
        m
    }
}

#[derive(Clone, Debug, PartialEq, Eq)]
pub struct Pos {
    pub dir: Dir,
    pub size: i128,
    pub margin: U,
    pub notional: U,
    pub checkpoint: i128,
    pub block: u64,
}

impl Pos {
    pub fn from_json(v: &Value) -> Pos {
        Pos {
            dir: Dir::from_js(v["direction"].as_str().unwrap_or("")),
            size: pi(&v["size"]),
            margin: pu(&v["margin"]),
            notional: pu(&v["notional"]),
            checkpoint: pi(&v["last_updated_premium_fraction"]),
            block: v["block_number"].as_u64().unwrap_or(0),
        }
    }
}

#[derive(Clone, Debug, PartialEq, Eq, Default)]
pub struct VammObs {
    pub ok: bool,
    pub open: bool,
    pub q: U,
    pub b: U,
    pub size: i128,
    pub next_funding: u64,
    pub spot: U,
    pub holding_cap: U,
    pub oi_cap: U,
    pub toll: U,
    pub spread: U,
    pub fluct: U,
    pub decimals: U,
    pub funding_period: u64,
    pub twap_interval: u64,
    pub margin_engine: String,
    pub insurance_fund: String,
    pub pricefeed: String,
    pub owner: String,
    pub registered: bool,
    pub cum: i128,
}

#[derive(Clone, Debug, PartialEq, Eq, Default)]
pub struct EngObs {
    pub owner: String,
    pub insurance_fund: String,
    pub fee_pool: String,
    pub decimals: U,
    pub initial: U,
    pub maintenance: U,
    pub partial: U,
    pub liq_fee: U,
    pub oi: U,
    pub bad_debt: U,
    pub pauser: String,
}

#[derive(Clone, Debug, Default)]
pub struct Obs {
    pub height: u64,
    pub time: u64,
    pub eng: Option<EngObs>,
    pub vamms: Vec<VammObs>,
    pub pos: BTreeMap<(usize, String), Pos>,
    pub bal: BTreeMap<String, U>,
    pub registry: Vec<String>,
    pub if_owner: String,
    pub fp_owner: String,
    pub pf_owner: String,
    pub dump: Dump,
}

impl Obs {
    pub fn bal(&self, who: &str) -> U {
        *self.bal.get(who).unwrap_or(&0)
    }
    pub fn position(&self, v: usize, who: &str) -> Option<&Pos> {
        self.pos.get(&(v, who.to_string()))
    }
    pub fn total(&self) -> U {
        self.bal.values().sum()
    }
}

/// accounts whose positions are tracked
pub fn position_accounts(w: &World) -> Vec<String> {
    let mut v = w.trading_accounts();
    v.push("keeper".into());
    v.push("stranger".into());
    v
}

pub fn observe_vamm(w: &World, i: usize) -> VammObs {
    let a = &w.addrs.vamms[i];
    let mut o = VammObs::default();
    let st = match w.q(a, json!({"state": {}})) {
        Ok(s) => s,
        Err(_) => return o,
    };
    let cf = match w.q(a, json!({"config": {}})) {
        Ok(s) => s,
        Err(_) => return o,
    };
    o.ok = true;
    o.open = st["open"].as_bool().unwrap_or(false);
    o.q = pu(&st["quote_asset_reserve"]);
    o.b = pu(&st["base_asset_reserve"]);
    o.size = pi(&st["total_position_size"]);
    o.next_funding = st["next_funding_time"].as_u64().unwrap_or(0);
    o.holding_cap = pu(&cf["base_asset_holding_cap"]);
    o.oi_cap = pu(&cf["open_interest_notional_cap"]);
    o.toll = pu(&cf["toll_ratio"]);
    o.spread = pu(&cf["spread_ratio"]);
    o.fluct = pu(&cf["fluctuation_limit_ratio"]);
    o.decimals = pu(&cf["decimals"]);
    o.funding_period = cf["funding_period"].as_u64().unwrap_or(0);
    o.twap_interval = cf["spot_price_twap_interval"].as_u64().unwrap_or(0);
    o.margin_engine = cf["margin_engine"].as_str().unwrap_or("").to_string();
    o.insurance_fund = cf["insurance_fund"].as_str().unwrap_or("").to_string();
    o.pricefeed = cf["pricefeed"].as_str().unwrap_or("").to_string();
    o.spot = w.q(a, json!({"spot_price": {}})).map(|v| pu(&v)).unwrap_or(0);
    o.owner = w
        .q(a, json!({"get_owner": {}}))
        .ok()
        .and_then(|v| v["owner"].as_str().map(|s| s.to_string()))
        .unwrap_or_default();
    o
}

pub fn observe(w: &World) -> Obs {
    let b = w.app.block_info();
    let mut o = Obs { height: b.height, time: b.time.seconds(), ..Default::default() };
    o.dump = w.dump();
    o.bal = w.census(&o.dump);
    for i in 0..w.addrs.vamms.len() {
        o.vamms.push(observe_vamm(w, i));
    }
    if w.cfg.kind == WorldKind::Standard {
        let e = &w.addrs.engine;
        let mut eo = EngObs::default();
        if let Ok(c) = w.q(e, json!({"config": {}})) {
            eo.owner = c["owner"].as_str().unwrap_or("").to_string();
            eo.insurance_fund = c["insurance_fund"].as_str().unwrap_or("").to_string();
            eo.fee_pool = c["fee_pool"].as_str().unwrap_or("").to_string();
            eo.decimals = pu(&c["decimals"]);
            eo.initial = pu(&c["initial_margin_ratio"]);
            eo.maintenance = pu(&c["maintenance_margin_ratio"]);
            eo.partial = pu(&c["partial_liquidation_ratio"]);
            eo.liq_fee = pu(&c["liquidation_fee"]);
        }
        if let Ok(s) = w.q(e, json!({"state": {}})) {
            eo.oi = pu(&s["open_interest_notional"]);
            eo.bad_debt = pu(&s["bad_debt"]);
        }
        if let Ok(p) = w.q(e, json!({"get_pauser": {}})) {
            eo.pauser = p["pauser"].as_str().unwrap_or("").to_string();
        }
        o.eng = Some(eo);
        if let Ok(l) = w.q(&w.addrs.insurance_fund, json!({"get_all_vamm": {"limit": null}})) {
            if let Some(arr) = l["vamm_list"].as_array() {
                o.registry = arr.iter().filter_map(|x| x.as_str().map(|s| s.to_string())).collect();
            }
        }
        let owner_of = |addr: &str| -> String {
            w.q(addr, json!({"get_owner": {}})).ok().and_then(|v| v["owner"].as_str().map(|s| s.to_string())).unwrap_or_default()
        };
        o.if_owner = owner_of(&w.addrs.insurance_fund);
        o.fp_owner = owner_of(&w.addrs.fee_pool);
        o.pf_owner = match w.cfg.oracle {
            OracleKind::Real => owner_of(&w.addrs.pricefeed),
            OracleKind::Mock => w
                .q(&w.addrs.pricefeed, json!({"config": {}}))
                .ok()
                .and_then(|v| v["owner"].as_str().map(|s| s.to_string()))
                .unwrap_or_default(),
        };
        let accts = position_accounts(w);
        for (i, va) in w.addrs.vamms.iter().enumerate() {
            o.vamms[i].registered = o.registry.iter().any(|x| x == va);
            o.vamms[i].cum = w
                .q(e, json!({"cumulative_premium_fraction": {"vamm": va}}))
                .map(|v| pi(&v))
                .unwrap_or(0);
            for t in accts.iter() {
                if let Ok(p) = w.q(e, json!({"position": {"vamm": va, "trader": t}})) {
                    // the answer names the (vAMM, trader) it belongs to: a record served under a colliding storage key
                    // is somebody else's position, not this account's
                    let own = p["vamm"].as_str().map(|x| x == va).unwrap_or(true) && p["trader"].as_str().map(|x| x == t).unwrap_or(true);
                    if own {
                        o.pos.insert((i, t.clone()), Pos::from_json(&p));
                    }
                }
            }
        }
    }
    o
}
