mod batch;
mod fault;
mod gen;
mod obs;
mod oracles;
mod prng;
mod refmodel;
mod run;
mod twin;
mod types;
mod world;

use std::cell::RefCell;

use batch::*;

pub static THOROUGH: std::sync::atomic::AtomicBool = std::sync::atomic::AtomicBool::new(false);
/// replay --verbose: the step log also shows every position, the vAMM reserves and the pre-state queries
pub static VERBOSE: std::sync::atomic::AtomicBool = std::sync::atomic::AtomicBool::new(false);

thread_local! {
    static LAST_PANIC: RefCell<String> = RefCell::new(String::new());
}
pub fn last_panic() -> String {
    LAST_PANIC.with(|p| p.borrow().clone())
}

fn arg(args: &[String], name: &str) -> Option<String> {
    args.iter().position(|a| a == name).and_then(|i| args.get(i + 1).cloned())
}

fn budgets(prop: &str, tier: &str) -> u64 {
    // run counts calibrated so that quick is about a minute and thorough about ten on 16 cores
    let quick: u64 = match prop {
        "C01" | "C17" => 30000,
        "C18" => 16000,
        "C02" | "C03" | "C15" | "C20" => 25000,
        "C04" | "C05" | "C06" | "C10" | "C12" | "C16" => 20000,
        "C11" => 18000,
        "C07" | "C08" => 15000,
        "C13" => 12000,
        "C09" | "C14" => 8000,
        _ => 10000,
    };
    if tier == "thorough" {
        quick * 6
    } else {
        quick
    }
}

fn verif_dir() -> String {
    std::env::var("VERIF_DIR").unwrap_or_else(|_| "/verif".to_string())
}

fn cmd_check(args: &[String]) -> i32 {
    let prop = match args.get(0) {
        Some(p) => p.clone(),
        None => {
            eprintln!("usage: perpsim check <Cxx> [--tier quick|thorough] [--runs N] [--workers W]");
            return 2;
        }
    };
    let tier = arg(args, "--tier").or_else(|| std::env::var("VERIF_TIER").ok()).unwrap_or_else(|| "quick".into());
    let tier = if tier == "thorough" { "thorough" } else { "quick" };
    THOROUGH.store(tier == "thorough", std::sync::atomic::Ordering::Relaxed);
    let seed: u64 = std::env::var("VERIF_SEED").ok().and_then(|s| s.parse().ok()).unwrap_or(1);
    let runs: u64 = arg(args, "--runs").and_then(|s| s.parse().ok()).unwrap_or_else(|| budgets(&prop, tier));
    let workers: usize = arg(args, "--workers").and_then(|s| s.parse().ok()).unwrap_or_else(|| std::thread::available_parallelism().map(|n| n.get()).unwrap_or(4).min(16));
    let cap: u64 = arg(args, "--wall-cap").and_then(|s| s.parse().ok()).unwrap_or(if tier == "thorough" { 3600 } else { 600 });
    let verif = verif_dir();
    println!("perpsim check property={} tier={} VERIF_SEED={} runs={} workers={}", prop, tier, seed, runs, workers);

    // known findings first: each open entry's committed replay must still reproduce
    let known = load_known(&verif);
    let mut exit = 0;
    for k in known.iter().filter(|k| k.property == prop) {
        let path = format!("{}/{}", verif, k.replay);
        let rf: Option<ReplayFile> = std::fs::read_to_string(&path).ok().and_then(|s| serde_json::from_str(&s).ok());
        match (k.status.as_str(), rf) {
            ("open", Some(rf)) => {
                let res = run_history(&prop, &rf.world, &rf.steps, false);
                if res.ev.violations.iter().any(|v| v.signature == k.signature) {
                    println!("KNOWN-FINDING: property={} {} [signature {} replay {}]", prop, k.what, k.signature, k.replay);
                } else {
                    println!("note: known finding no longer reproduces from its replay: {} ({})", k.signature, k.replay);
                }
            }
            ("open", None) => {
                println!("HARNESS-ERROR: known finding {} has no readable replay {}", k.signature, path);
                exit = 2;
            }
            (_, Some(rf)) => {
                // fixed entries suppress nothing; their replay is re-run as a regression
                let res = run_history(&prop, &rf.world, &rf.steps, false);
                if let Some(v) = res.ev.violations.iter().find(|v| v.signature == k.signature) {
                    let out = format!("{}/replays/{}-regression-{}.json", verif, prop, rf.run);
                    let _ = std::fs::create_dir_all(format!("{}/replays", verif));
                    let mut rf2 = rf.clone();
                    rf2.violation = Some(v.clone());
                    let _ = std::fs::write(&out, serde_json::to_string_pretty(&rf2).unwrap());
                    println!("VIOLATION property={} replay={}", prop, out);
                    println!("  fixed finding has returned: {}", k.signature);
                    exit = 1;
                }
            }
            _ => {}
        }
    }

    let out = run_batch(&prop, seed, runs, workers, cap, &verif, tier, 300);
    let _ = std::fs::create_dir_all(format!("{}/evidence", verif));
    let _ = std::fs::create_dir_all(format!("{}/replays", verif));
    let ev_path = format!("{}/evidence/{}.json", verif, prop);
    if let Err(e) = std::fs::write(&ev_path, serde_json::to_string_pretty(&out.evidence).unwrap()) {
        println!("HARNESS-ERROR: cannot write evidence {}: {}", ev_path, e);
        return 2;
    }
    for (sig, n) in out.known_hits.iter() {
        println!("known finding matched by search: {} ({} runs)", sig, n);
    }
    if !out.harness_errors.is_empty() {
        for e in out.harness_errors.iter() {
            println!("HARNESS-ERROR: {}", e);
        }
        return 2;
    }
    for (rf, _) in out.violations.iter() {
        let path = format!("{}/replays/{}-{}-{}-{:08x}.json", verif, prop, seed, rf.run, (run::hkey(&rf.signature) & 0xffff_ffff) as u32);
        let _ = std::fs::write(&path, serde_json::to_string_pretty(rf).unwrap());
        // replay in a fresh process before reporting
        let exe = std::env::current_exe().unwrap();
        let st = std::process::Command::new(exe).arg("replay").arg(&path).arg("--quiet").status();
        let reproduced = matches!(st.map(|s| s.code()), Ok(Some(1)));
        println!("VIOLATION property={} replay={}", prop, path);
        println!("  signature={} steps={} reproduced_in_fresh_process={}", rf.signature, rf.steps.len(), reproduced);
        if let Some(v) = &rf.violation {
            println!("  details={}", v.details);
        }
        exit = exit.max(1);
    }
    let cov = &out.evidence["coverage"];
    println!(
        "runs={} steps={} evaluations={} distinct_nontrivial={} states={} interleavings={} wall_s={:.1}",
        out.runs, cov["steps"], cov["evaluations"], cov["distinct_nontrivial"], cov["states_reached"], cov["interleavings"], out.evidence["wall_s"].as_f64().unwrap_or(0.0)
    );
    if exit == 0 {
        println!("OK property={} held on everything explored", prop);
    }
    exit
}

fn cmd_replay(args: &[String]) -> i32 {
    let path = match args.get(0) {
        Some(p) => p.clone(),
        None => return 2,
    };
    let quiet = args.iter().any(|a| a == "--quiet");
    VERBOSE.store(args.iter().any(|a| a == "--verbose"), std::sync::atomic::Ordering::Relaxed);
    let rf: ReplayFile = match std::fs::read_to_string(&path).ok().and_then(|s| serde_json::from_str(&s).ok()) {
        Some(r) => r,
        None => {
            eprintln!("cannot read replay file {}", path);
            return 2;
        }
    };
    let res = run_history(&rf.property, &rf.world, &rf.steps, !quiet);
    if !quiet {
        for l in res.log.iter() {
            println!("{}", l);
        }
    }
    for e in res.ev.harness_errors.iter() {
        println!("HARNESS-ERROR: {}", e);
    }
    let hit = res.ev.violations.iter().find(|v| v.signature == rf.signature);
    match hit {
        Some(v) => {
            if !quiet {
                println!("REPRODUCED signature={} step={} details={}", v.signature, v.step, v.details);
            }
            1
        }
        None => {
            if !quiet {
                for v in res.ev.violations.iter() {
                    println!("other violation: {} step={} {}", v.signature, v.step, v.details);
                }
                println!("NOT REPRODUCED signature={}", rf.signature);
            }
            0
        }
    }
}

/// event log of seeded runs, for the determinism proof
fn cmd_trace(args: &[String]) -> i32 {
    let prop = args.get(0).cloned().unwrap_or_else(|| "C02".into());
    let seed: u64 = std::env::var("VERIF_SEED").ok().and_then(|s| s.parse().ok()).unwrap_or(1);
    let from: u64 = arg(args, "--from").and_then(|s| s.parse().ok()).unwrap_or(0);
    let n: u64 = arg(args, "--runs").and_then(|s| s.parse().ok()).unwrap_or(10);
    let full = args.iter().any(|a| a == "--full");
    for i in from..from + n {
        let res = one_run(&prop, seed, i, true);
        let digest = run::hkey(&res.log);
        println!("run {} steps={} evals={} violations={} log_digest={:016x}", i, res.n_steps, res.ev.evaluations, res.ev.violations.len(), digest);
        if full {
            for l in res.log.iter() {
                println!("  {}", l);
            }
            for v in res.ev.violations.iter() {
                println!("  VIOL {} step={} {}", v.signature, v.step, v.details);
            }
            for e in res.ev.harness_errors.iter() {
                println!("  HARNESS {}", e);
            }
        }
    }
    0
}

fn main() {
    std::panic::set_hook(Box::new(|info| {
        let loc = info.location().map(|l| format!("{}:{}", l.file(), l.line())).unwrap_or_default();
        LAST_PANIC.with(|p| *p.borrow_mut() = loc);
    }));
    let args: Vec<String> = std::env::args().skip(1).collect();
    let code = match args.get(0).map(|s| s.as_str()) {
        Some("check") => cmd_check(&args[1..]),
        Some("replay") => cmd_replay(&args[1..]),
        Some("trace") => cmd_trace(&args[1..]),
        _ => {
            eprintln!("usage: perpsim check|replay|trace ...");
            2
        }
    };
    std::process::exit(code);
}
