//! xoshiro256** seeded through splitmix64. The only source of randomness in the simulator.

#[derive(Clone, Debug)]
pub struct Rng {
    s: [u64; 4],
}

fn splitmix(x: &mut u64) -> u64 {
    *x = x.wrapping_add(0x9E37_79B9_7F4A_7C15);
    let mut z = *x;
    z = (z ^ (z >> 30)).wrapping_mul(0xBF58_476D_1CE4_E5B9);
    z = (z ^ (z >> 27)).wrapping_mul(0x94D0_49BB_1331_11EB);
    z ^ (z >> 31)
}

impl Rng {
    /// One generator per (seed, stream, run): everything a run does derives from these three integers.
    pub fn new(seed: u64, stream: u64, run: u64) -> Self {
        let mut x = seed
            .wrapping_mul(0x9E37_79B9_7F4A_7C15)
            .wrapping_add(stream.wrapping_mul(0xD1B5_4A32_D192_ED03))
            .wrapping_add(run.wrapping_mul(0x8CB9_2BA7_2F3D_8DD7))
            ^ 0x5851_F42D_4C95_7F2D;
        let s = [
            splitmix(&mut x),
            splitmix(&mut x),
            splitmix(&mut x),
            splitmix(&mut x),
        ];
        Rng { s }
    }

    pub fn next_u64(&mut self) -> u64 {
        let r = self.s[1].wrapping_mul(5).rotate_left(7).wrapping_mul(9);
        let t = self.s[1] << 17;
        self.s[2] ^= self.s[0];
        self.s[3] ^= self.s[1];
        self.s[1] ^= self.s[2];
        self.s[0] ^= self.s[3];
        self.s[2] ^= t;
        self.s[3] = self.s[3].rotate_left(45);
        r
    }

    /// uniform in [0, n)
    pub fn below(&mut self, n: u64) -> u64 {
        if n == 0 {
            return 0;
        }
        // multiply-shift; bias is irrelevant here but the result is deterministic
        ((self.next_u64() as u128 * n as u128) >> 64) as u64
    }

    pub fn below128(&mut self, n: u128) -> u128 {
        if n == 0 {
            return 0;
        }
        let hi = self.next_u64() as u128;
        let lo = self.next_u64() as u128;
        ((hi << 64) | lo) % n
    }

    /// uniform in [lo, hi]
    pub fn range(&mut self, lo: u64, hi: u64) -> u64 {
        if hi <= lo {
            return lo;
        }
        lo + self.below(hi - lo + 1)
    }

    pub fn range128(&mut self, lo: u128, hi: u128) -> u128 {
        if hi <= lo {
            return lo;
        }
        lo + self.below128(hi - lo + 1)
    }

    /// true with probability num/den
    pub fn chance(&mut self, num: u64, den: u64) -> bool {
        self.below(den) < num
    }

    pub fn pick<'a, T>(&mut self, xs: &'a [T]) -> &'a T {
        &xs[self.below(xs.len() as u64) as usize]
    }

    /// index drawn with the given integer weights
    pub fn weighted(&mut self, w: &[u32]) -> usize {
        let total: u64 = w.iter().map(|x| *x as u64).sum();
        if total == 0 {
            return 0;
        }
        let mut r = self.below(total);
        for (i, x) in w.iter().enumerate() {
            if r < *x as u64 {
                return i;
            }
            r -= *x as u64;
        }
        w.len() - 1
    }

    /// log-uniform magnitude in [lo, hi]
    pub fn log_range(&mut self, lo: u128, hi: u128) -> u128 {
        if hi <= lo {
            return lo;
        }
        let bl = 128 - lo.max(1).leading_zeros();
        let bh = 128 - hi.leading_zeros();
        let bits = self.range(bl as u64, bh as u64) as u32;
        let top = if bits >= 128 { u128::MAX } else { (1u128 << bits) - 1 };
        let bot = if bits <= 1 { 0 } else { 1u128 << (bits - 1) };
        let v = self.range128(bot, top);
        v.clamp(lo, hi)
    }
}
