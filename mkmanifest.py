#!/usr/bin/env python3
"""Regenerates MANIFEST.json from the table below (kept in one place so the manifest is always valid)."""
import json, sys

CLAIMED = {
 "C01": ("exploration", "5.C01", "seeded swap histories on vAMM-direct worlds and engine-driven histories; per-step invariants on the vAMM's public State (scaled product never decreases, base+net size constant, quote at a revisited net size never lower), refused swaps change nothing", "seeded deterministic simulation: per-step curve invariants over swap histories with refused swaps and injected sub-message faults"),
 "C02": ("exploration", "5.C02", "multi-trader engine histories (opens, reversals, closes, partial closes, full/partial liquidations, funding, faults); after every transaction the change of the sum of all traders' sizes equals the change of the vAMM's net size", "seeded deterministic simulation: cross-contract invariant after every transaction of multi-party interleavings with injected faults"),
 "C03": ("exploration", "5.C03", "full census of every collateral holder (read from the raw chain dump, so unexpected holders are seen) before/after every transaction in cw20 and native worlds; total conserved, only sender/engine/insurance fund/fee pool move, liquidated trader receives nothing", "seeded deterministic simulation: balance census and transfer ledger per transaction, both collateral kinds, injected faults"),
 "C04": ("exploration", "5.C04", "every successful close in seeded histories (price moves by others, funding in both signs, fees, deposits/withdrawals, vault shortfalls) is compared with the reference equity computed from pre-state queries and the vAMM's quote movement; bad-debt closes must be refused; insurance-fund drawdown by trader actions bounded by the prepaid bad debt recorded", "seeded deterministic simulation: reference-model comparison of close payouts from the transfer ledger"),
 "C05": ("exploration", "5.C05", "after every successful open the reference margin ratio (smaller-magnitude of spot/TWAP PnL, funding included) is compared with maintenance and with the engine's own query; boundary leverage values are attempted; withdrawals/deposits compared with exact margin and wallet movements and free collateral", "seeded deterministic simulation: reference-model comparison after each trader action with boundary-biased inputs"),
 "C06": ("exploration", "5.C06", "every Liquidate attempt (any caller, healthy and unhealthy targets) is judged against the reference liquidation ratio (spot/TWAP smaller magnitude, oracle override at >=10% spread) computed before the call from the vAMM's quote for the closing trade, the harness's own 15-minute TWAP of the recorded reserves and the price the feed contract itself reports; payouts of full and partial liquidations compared with the ledger", "seeded deterministic simulation: reference-model comparison of liquidation admission and payouts"),
 "C07": ("exploration", "5.C07", "liveness by fork-and-probe: at sampled states, for every position whose reference liquidation ratio is below maintenance and for which every stated precondition holds (open, registered, fillable, inside band, fee non-zero, oracle price non-zero, insurance fund topped up in the fork), one Liquidate by a rotating account must succeed - bounded progress of one transaction, both oracle implementations", "seeded deterministic simulation: bounded-liveness probes in forks of the simulated chain once faults have stopped"),
 "C08": ("fault_enumeration", "5.C08", "for each sampled (state, engine operation) every single sub-message index of the message tree is failed in turn: the call must return an error, the whole-chain dump must equal the pre-state, a fault-free retry must reproduce the dry run; no tmp-swap / sent-funds / tmp-liquidator key after any transaction", "deterministic simulation with exhaustive single-fault injection over the sub-message tree of sampled (state, operation) pairs"),
 "C09": ("fault_enumeration", "5.C09", "Byzantine-sender matrix in forks at sampled states and after every role transfer: every privileged execute variant of all five contracts x every sender kind (current and former role holders, contract addresses, traders, strangers); a sender the role model does not entitle must fail and leave the whole-chain dump unchanged", "deterministic simulation: enumerated sender x message matrix in forks, across role transfers"),
 "C10": ("exploration", "5.C10", "every tracked trader's stored position (all fields, existence) is compared before/after every transaction sent by someone else; only the position named by a Liquidate may change; sweeps of the whole query surface leave the dump unchanged", "seeded deterministic simulation: per-transaction comparison of all foreign positions over multi-party interleavings"),
 "C11": ("exploration", "5.C11", "block-time schedules around the funding time (early/on time/late/repeated PayFunding, gaps up to a week); premium, next funding time and the vault<->insurance-fund payment compared with references from same-block queries; every position event (increase, reduce, reverse, closes, withdraw, liquidation) compared with the no-funding outcome minus the funding owed, checkpoints tracked", "seeded deterministic simulation with a controlled clock: reference-model comparison of settlements and per-position charges"),
 "C12": ("exploration", "5.C12", "insurance-fund and fee-pool inflows of every successful open (incl. reversal), whole close and fee-free operation compared with floor(notional x ratio) / the vAMM's CalcFee quote, over fee ratios 0, 1 ulp ... 100% and notionals where fees round to zero; for whole closes also who was charged (what left the closing trader's wallet net of the payout equals the quoted fees, cw20 and native)", "seeded deterministic simulation: ledger comparison of fee routing per operation"),
 "C13": ("exploration", "5.C13", "a cw20 deployment and an identical native deployment are driven in lock-step; each native call attaches exactly what the cw20 twin pulled from the caller; success, every position, vAMM and engine state and per-party balance deltas must agree after each forwarded step", "seeded deterministic simulation: differential lock-step execution of twin deployments"),
 "C14": ("fault_enumeration", "5.C14", "gate matrix in forks at sampled states: every engine operation under all 8 combinations of paused/open/registered of a vAMM (gated operations must fail and change nothing, Liquidate/PayFunding must be unaffected by the pause flag); registry invariants after every step; ShutdownVamms from every subset of already-closed registered vAMMs must leave all of them closed", "deterministic simulation: enumerated gate combinations and shutdown subsets in forks"),
 "C15": ("exploration", "5.C15", "many trades per block with sizes solved to land near the band edge from the drifted price, both directions, engine-level and vAMM-direct; after each successful open the spot price is compared with the band (read exactly at reported prices: lower edge rounded up) around the harness's own end-of-previous-block price; closes checked for whole-inside-band / exact partial fraction", "seeded deterministic simulation with bursts inside one block: band reference kept by the harness"),
 "C16": ("exploration", "5.C16", "orderings of trades and liquidations inside one block and across block boundaries; after each liquidation every trader is probed in a fork (open and close) against the reference restriction (position touched in this block on a vAMM liquidated in this block); bystanders must not be refused for that reason (incl. accounts sharing a storage key with a real trader in worlds with prefix-related vAMM addresses)", "seeded deterministic simulation: intra-block schedules with fork probes for every actor"),
 "C17": ("exploration", "5.C17", "query-then-execute at the same state for both swap kinds and directions with limits at, just below and just above the quote, at the vAMM and through OpenPosition / whole ClosePosition; executed amounts must equal the quote and the reference curve; a limit on the wrong side must refuse and change nothing", "seeded deterministic simulation: quote/execute pairs against a reference curve"),
 "C18": ("exploration", "5.C18", "irregular block cadence with several trades per block; vAMM TWAP over intervals shorter/equal/longer than the history and the price feed's TWAP/latest/previous queries compared with bounds derived from the harness's own record of end-of-block prices and submissions; raw reserve snapshots checked for one-per-block", "seeded deterministic simulation with a controlled clock: bounds from the harness's own price record"),
 "C20": ("exploration", "5.C20", "random UpdateConfig sequences on engine and vAMM (single and combined fields, boundary values), cap changes under live positions, whitelist churn, AddVamm of a vAMM with different decimals; bounds checked after every accepted update, caps after every position-increasing trade by a non-whitelisted trader", "seeded deterministic simulation: configuration churn interleaved with trades"),
}

NA_REASONS = {
 "C19": "pure function of two operands of one value type: no schedule, clock, message, fault or history for a simulator to control; generating operand pairs would be input generation, which this technique family does not cover (DESIGN.md 5.C19)",
}
PENDING = "oracle not built yet in this round (see DESIGN.md section 10 build order); not claimed until its check runs clean or its findings are triaged"

def main():
    props = [json.loads(l) for l in open("/verif/properties.jsonl")]
    checks = []
    na = []
    for p in props:
        pid = p["id"]
        if pid in CLAIMED:
            level, ref, text, tech = CLAIMED[pid]
            checks.append({
                "property_id": pid,
                "quick_cmd": f"./check {pid} quick",
                "thorough_cmd": f"./check {pid} thorough",
                "evidence_file": f"/verif/evidence/{pid}.json",
                "replay_cmd_template": "./target/release/perpsim replay {path}",
                "engine": "perpsim",
                "level_claimed": {"category": level, "text": text, "design_ref": f"DESIGN.md {ref}"},
                "level_note": "trusted: cw-multi-test 0.13.4 host model (dispatch order, reply semantics, cache/commit), MockApi, cw20-base, the reference formulas of DESIGN.md Appendix A; sampled histories - a clean batch is evidence, not proof",
                "technique": tech,
            })
        else:
            na.append({"property_id": pid, "reason": NA_REASONS.get(pid, PENDING)})
    m = {
        "version": 1,
        "setup_cmd": "cd sim && CARGO_NET_OFFLINE=true cargo build --release --offline",
        "hooks": {
            "guard": "none (no source hooks: every seam - contract wrapper, bank module, clock, storage dump - is on the host side)",
            "enable": "not needed; the harness crate /verif/sim depends on /repo's contract crates by path and is rebuilt by every check",
            "baseline_off_cmd": "cd /repo && cargo test --workspace --no-fail-fast --offline",
            "source_commits": [],
            "add_only": True,
        },
        "engines": [{"name": "perpsim", "path": "/verif/sim", "serves_properties": sorted(CLAIMED.keys()),
                     "kind_free_text": "deterministic discrete-event simulator over cw-multi-test with a fault layer (fail the k-th message of a transaction), whole-chain snapshot/restore for fork-and-probe, seeded xoshiro scheduler, ddmin minimiser, JSON replay files"}],
        "checks": checks,
        "not_applicable": na,
        "notes": "VERIF_SEED selects the PRNG seed (default 1); budgets are run counts so the explored set is a function of the seed; exit 2 = harness error. Known findings: /verif/known_findings.json with committed replays under /verif/findings/.",
    }
    json.dump(m, open("/verif/MANIFEST.json", "w"), indent=1)
    print("claimed:", len(checks), "not claimed:", len(na))

main()
