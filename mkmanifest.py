#!/usr/bin/env python3
"""Regenerates MANIFEST.json from the table below (kept in one place so the manifest is always valid)."""
import json, sys

CLAIMED = {
 "C01": ("exploration", "5.C01", "seeded swap histories on vAMM-direct worlds and engine-driven histories; per-step invariants on the vAMM's public State (scaled product never decreases, base+net size constant, quote at a revisited net size never lower), failed swaps change nothing", "seeded deterministic simulation: per-step curve invariants over swap histories with rejected swaps and injected sub-message faults"),
 "C02": ("exploration", "5.C02", "multi-trader engine histories (opens, reversals, closes, partial closes, full/partial liquidations, funding, faults); after every transaction the change of the sum of all traders' sizes equals the change of the vAMM's net size", "seeded deterministic simulation: cross-contract invariant after every transaction of multi-party interleavings with injected faults"),
 "C03": ("exploration", "5.C03", "full census of every collateral holder (read from the raw chain dump, so unexpected holders are seen) before/after every transaction in cw20 and native worlds; total conserved, only sender/engine/insurance fund/fee pool move, liquidated trader receives nothing", "seeded deterministic simulation: balance census and transfer ledger per transaction, both collateral kinds, injected faults"),
 "C08": ("fault_enumeration", "5.C08", "for each sampled (state, engine operation) every single sub-message index of the message tree is failed in turn: the call must return an error, the whole-chain dump must equal the pre-state, a fault-free retry must reproduce the dry run; no tmp-swap / sent-funds / tmp-liquidator key after any transaction", "deterministic simulation with exhaustive single-fault injection over the sub-message tree of sampled (state, operation) pairs"),
 "C10": ("exploration", "5.C10", "every tracked trader's stored position (all fields, existence) is compared before/after every transaction sent by someone else; only the position named by a Liquidate may change; sweeps of the whole query surface leave the dump unchanged", "seeded deterministic simulation: per-transaction comparison of all foreign positions over multi-party interleavings"),
}

NA_REASONS = {
 "C19": "pure function of two operands of one value type: no schedule, clock, message, fault or history for a simulator to control; generating operand pairs would be input generation, which this technique family does not cover (DESIGN.md 5.C19)",
}
PENDING = "oracle not built yet in this round (see DESIGN.md section 10 build order); not claimed until its check runs clean or its findings are triaged"

def main():
    props = [json.loads(l) for l in open("/verif/properties.jsonl")]
    checks = []
    na = []
    for p in props:
        pid = p["id"]
        if pid in CLAIMED:
            level, ref, text, tech = CLAIMED[pid]
            checks.append({
                "property_id": pid,
                "quick_cmd": f"./check {pid} quick",
                "thorough_cmd": f"./check {pid} thorough",
                "evidence_file": f"/verif/evidence/{pid}.json",
                "replay_cmd_template": "./target/release/perpsim replay {path}",
                "engine": "perpsim",
                "level_claimed": {"category": level, "text": text, "design_ref": f"DESIGN.md {ref}"},
                "level_note": "trusted: cw-multi-test 0.13.4 host model (dispatch order, reply semantics, cache/commit), MockApi, cw20-base, the reference formulas of DESIGN.md Appendix A; sampled histories - a clean batch is evidence, not proof",
                "technique": tech,
            })
        else:
            na.append({"property_id": pid, "reason": NA_REASONS.get(pid, PENDING)})
    m = {
        "version": 1,
        "setup_cmd": "cd sim && CARGO_NET_OFFLINE=true cargo build --release --offline",
        "hooks": {
            "guard": "none (no source hooks: every seam - contract wrapper, bank module, clock, storage dump - is on the host side)",
            "enable": "not needed; the harness crate /verif/sim depends on /repo's contract crates by path and is rebuilt by every check",
            "baseline_off_cmd": "cd /repo && cargo test --workspace --no-fail-fast --offline",
            "source_commits": [],
            "add_only": True,
        },
        "engines": [{"name": "perpsim", "path": "/verif/sim", "serves_properties": sorted(CLAIMED.keys()),
                     "kind_free_text": "deterministic discrete-event simulator over cw-multi-test with a fault layer (fail the k-th message of a transaction), whole-chain snapshot/restore for fork-and-probe, seeded xoshiro scheduler, ddmin minimiser, JSON replay files"}],
        "checks": checks,
        "not_applicable": na,
        "notes": "VERIF_SEED selects the PRNG seed (default 1); budgets are run counts so the explored set is a function of the seed; exit 2 = harness error. Known findings: /verif/known_findings.json with committed replays under /verif/findings/.",
    }
    json.dump(m, open("/verif/MANIFEST.json", "w"), indent=1)
    print("claimed:", len(checks), "not claimed:", len(na))

main()
