#!/bin/sh
# usage: ./sweep.sh <runs> <seed...> ; prints the violation signatures each property's search produces
RUNS=$1; shift
for s in "$@"; do
for p in C01 C02 C03 C04 C05 C06 C07 C08 C09 C10 C11 C12 C13 C14 C15 C16 C17 C18 C20; do
  VERIF_SEED=$s ./target/release/perpsim check $p --runs $RUNS > target/sweep-$p-$s.log 2>&1; rc=$?
  python3 - "$p" "$s" "$rc" <<'PY'
import json,sys
p,s,rc=sys.argv[1:4]
try:
    e=json.load(open(f'/verif/evidence/{p}.json'))
    c=e['coverage']
    print(p,'seed',s,'rc',rc,'wall',round(e['wall_s'],1),'evals',c['evaluations'],'distinct',c['distinct_nontrivial'],json.dumps(c['violation_signatures']), 'known', json.dumps(c['known_findings_matched']))
except Exception as ex:
    print(p,'seed',s,'rc',rc,'NO EVIDENCE',ex)
PY
  grep -h "HARNESS-ERROR" target/sweep-$p-$s.log | head -3
done
done
