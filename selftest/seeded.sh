#!/bin/sh
# usage: selftest/seeded.sh <dir-with-patch.diff> <property> [more properties...]
# applies the seeded change to /repo, runs the quick checks, undoes it, rebuilds.
D0=$1; cd "$(dirname "$0")/.."
D=$(cd "$1" && pwd); shift
git -C /repo apply --check "$D/patch.diff" || { echo "patch does not apply"; exit 2; }
git -C /repo apply "$D/patch.diff"
for p in "$@"; do
  ./check $p quick > target/seeded-$p.log 2>&1; rc=$?
  echo "== $p rc=$rc"; grep -E "signature=|HARNESS" target/seeded-$p.log | sort -u | head -8
done
git -C /repo checkout -- .
(cd sim && cargo build --release --offline >/dev/null 2>&1)
git -C /repo status --short | head -3
