#!/bin/sh
# Determinism proof: every (property, seed, run) is executed twice in separate processes and the full event
# logs (every step, result, post-state digest) are compared; then a batch is run at 1 and at 16 workers and the
# evidence (minus wall-clock fields) is compared.  Exit 0 = identical, 2 = harness nondeterminism.
# usage: selftest/determinism.sh [runs-per-property] [seeds...]
cd "$(dirname "$0")/.."
N=${1:-120}; shift 2>/dev/null
SEEDS=${*:-"1 7"}
BIN=./target/release/perpsim
T=target/determinism; rm -rf $T; mkdir -p $T
bad=0; total=0
for s in $SEEDS; do
for p in C01 C02 C03 C04 C05 C06 C07 C08 C09 C10 C11 C12 C13 C14 C15 C16 C17 C18 C20; do
  VERIF_SEED=$s $BIN trace $p --runs $N --full > $T/a-$p-$s.log 2>&1 &
  VERIF_SEED=$s $BIN trace $p --runs $N --full > $T/b-$p-$s.log 2>&1 &
  wait
  total=$((total+N))
  if ! cmp -s $T/a-$p-$s.log $T/b-$p-$s.log; then echo "NONDETERMINISTIC: $p seed $s"; bad=1; fi
done
done
for p in C02 C08 C13 C14; do
  VERIF_DIR=$PWD/$T/w1 ; mkdir -p $VERIF_DIR; cp known_findings.json $VERIF_DIR/ 2>/dev/null; cp -r findings $VERIF_DIR/ 2>/dev/null
  VERIF_DIR=$VERIF_DIR $BIN check $p --runs 600 --workers 1 > $T/w1-$p.out 2>&1
  VERIF_DIR=$PWD/$T/w16; mkdir -p $VERIF_DIR; cp known_findings.json $VERIF_DIR/ 2>/dev/null; cp -r findings $VERIF_DIR/ 2>/dev/null
  VERIF_DIR=$VERIF_DIR $BIN check $p --runs 600 --workers 16 > $T/w16-$p.out 2>&1
  python3 - $T $p <<'PY' || bad=1
import json,sys
t,p=sys.argv[1:3]
a=json.load(open(f'{t}/w1/evidence/{p}.json')); b=json.load(open(f'{t}/w16/evidence/{p}.json'))
for e in (a,b):
    e.pop('wall_s',None); e['coverage'].pop('runs_per_hour',None); e['coverage'].pop('workers',None)
if a!=b:
    print("WORKER-COUNT DEPENDENCE:",p); sys.exit(1)
PY
done
echo "determinism: $total runs x 2 processes compared, worker-count comparison on 4 properties: $([ $bad = 0 ] && echo identical || echo DIFFERENT)"
[ $bad = 0 ] && exit 0 || exit 2
