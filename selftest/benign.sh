#!/bin/sh
# False-alarm control: property-preserving changes of /repo (renamed error strings, storage keys and response attributes,
# re-ordered independent checks and payouts, a longer funding buffer, a TWAP rounded to nearest). Every check must stay
# silent on each of them. Runs in the isolated sandbox of intake_iso.sh.
# usage: selftest/benign.sh [runs] [patch names...]   (results: /tmp/intake/benign.tsv)
cd "$(dirname "$0")/.."
RUNS=${1:-6000}; shift 2>/dev/null
NAMES=${*:-$(ls selftest/benign/*.patch | xargs -n1 basename | sed 's/.patch$//')}
OUT=/tmp/intake/benign.tsv
mkdir -p /tmp/intake; printf "patch\tproperty\trc\tsignatures\n" > $OUT
for n in $NAMES; do
  PATCH_FILE=$PWD/selftest/benign/$n.patch CHECK_ARGS="--runs $RUNS" ./selftest/intake_iso.sh --noverify - benign-$n C01 C02 C03 C04 C05 C06 C07 C08 C09 C10 C11 C12 C13 C14 C15 C16 C17 C18 C20 > /tmp/intake/benign-$n.log 2>&1
  awk -v n=$n '/^== /{p=$2; rc=$3} /^== /{printf "%s\t%s\t%s\t\n", n, p, rc}' /tmp/intake/benign-$n.log >> $OUT
  grep -E "signature=|HARNESS|apply" /tmp/intake/benign-$n.log | sed "s/^/$n /" >> $OUT
done
