#!/bin/sh
# usage: selftest/intake_iso.sh [--noverify] <agent-worktree|-> <id e.g. C05-g> <property> [more properties...]
# Like intake.sh, but the checks run in an isolated sandbox so that /repo and /verif can be edited meanwhile:
#   /tmp/intake/repo   a detached git worktree of /repo's HEAD (the seeded patch is applied there and undone afterwards)
#   /tmp/intake/verif  a copy of /verif's harness sources (path dependencies re-pointed at /tmp/intake/repo)
# Sensitivity measurements only; evidence and registered checks always come from /verif against /repo itself.
VERIFY=1
[ "$1" = "--noverify" ] && { VERIFY=0; shift; }
WT=$1; ID=$2; shift 2
HERE="$(cd "$(dirname "$0")/.." && pwd)"
ISO=${INTAKE_DIR:-/tmp/intake}
if [ "$WT" != "-" ]; then
  [ -f "$WT/SEEDED/patch.diff" ] || { echo "no SEEDED/patch.diff in $WT"; exit 2; }
  if [ $VERIFY = 1 ]; then
    echo "## verify $ID"
    "$HERE/selftest/verify_seeded.sh" "$WT" 2>&1 | tail -12
  fi
  mkdir -p "$HERE/seeded/$ID"
  cp "$WT/SEEDED/patch.diff" "$HERE/seeded/$ID/patch.diff"
  [ -f "$WT/SEEDED/demo.diff" ] && cp "$WT/SEEDED/demo.diff" "$HERE/seeded/$ID/demo.diff"
  [ -f "$WT/SEEDED/NOTES.md" ] && cp "$WT/SEEDED/NOTES.md" "$HERE/seeded/$ID/NOTES.md"
fi
PATCH="${PATCH_FILE:-$HERE/seeded/$ID/patch.diff}"
mkdir -p $ISO
# one sandbox, one user at a time
exec 9>$ISO/lock
flock 9
if [ ! -d $ISO/repo ]; then
  git -C /repo worktree add --detach $ISO/repo HEAD >/dev/null 2>&1 || { echo "cannot create $ISO/repo"; exit 2; }
fi
git -C $ISO/repo checkout -q --detach "$(git -C /repo rev-parse HEAD)" || exit 2
git -C $ISO/repo checkout -- .
mkdir -p $ISO/verif
rm -rf $ISO/verif && mkdir -p $ISO/verif && git -C "$HERE" archive HEAD sim check known_findings.json findings | tar -x -C $ISO/verif
sed -i "s#/repo/#$ISO/repo/#" $ISO/verif/sim/Cargo.toml
sed -i "s#/verif/target#$ISO/target#" $ISO/verif/sim/.cargo/config.toml
git -C $ISO/repo apply --check "$PATCH" || { echo "patch does not apply to HEAD"; exit 2; }
git -C $ISO/repo apply "$PATCH"
echo "## checks $ID: $*"
(cd $ISO/verif/sim && CARGO_NET_OFFLINE=true cargo build --release --offline >$ISO/build.log 2>&1) || { echo "HARNESS-ERROR: build failed"; tail -20 $ISO/build.log; git -C $ISO/repo checkout -- .; exit 2; }
mkdir -p $ISO/verif/evidence $ISO/verif/replays
for p in "$@"; do
  VERIF_DIR=$ISO/verif $ISO/target/release/perpsim check $p --tier quick $CHECK_ARGS > $ISO/seeded-$ID-$p.log 2>&1; rc=$?
  echo "== $p rc=$rc"; grep -E "signature=|HARNESS" $ISO/seeded-$ID-$p.log | sort -u | head -8
done
git -C $ISO/repo checkout -- .
