#!/bin/sh
# usage: selftest/verify_seeded.sh <worktree>  - confirms a sub-agent's seeded change independently:
# with patch+demo: the 410 baseline tests pass and only demo tests fail; with the patch reversed: everything passes.
WT=$1
cd $WT || exit 2
export CARGO_NET_OFFLINE=true
count() { awk '/^test result/{p+=$4; f+=$6} END {print p" passed "f" failed"}'; }
echo "-- with patch and demo"
cargo test --workspace --no-fail-fast --offline 2>&1 | tee /tmp/vs-$$.log | count
grep -E "^test .* FAILED" /tmp/vs-$$.log | sort -u | head -10
git apply -R SEEDED/patch.diff || { echo "cannot reverse patch"; exit 2; }
echo "-- demo only (patch reversed)"
cargo test --workspace --no-fail-fast --offline 2>&1 | tee /tmp/vs-$$.log | count
grep -E "^test .* FAILED" /tmp/vs-$$.log | sort -u | head -10
git apply SEEDED/patch.diff
rm -f /tmp/vs-$$.log
