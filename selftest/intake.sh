#!/bin/sh
# usage: selftest/intake.sh <worktree> <id e.g. C05-g> <property> [more properties to check...]
# 1. confirms the sub-agent's change independently (verify_seeded.sh: 410 pass + demo fails with it, all pass without)
# 2. copies patch.diff / demo.diff / NOTES.md to /verif/seeded/<id>/
# 3. applies the patch to /repo, runs the quick check(s), undoes it (seeded.sh)
# Nothing is decided here: the output is read by a person who then writes meta.json.
WT=$1; ID=$2; shift 2
HERE="$(cd "$(dirname "$0")/.." && pwd)"
[ -f "$WT/SEEDED/patch.diff" ] || { echo "no SEEDED/patch.diff in $WT"; exit 2; }
echo "## verify $ID"
"$HERE/selftest/verify_seeded.sh" "$WT" 2>&1 | tail -12
mkdir -p "$HERE/seeded/$ID"
cp "$WT/SEEDED/patch.diff" "$HERE/seeded/$ID/patch.diff"
[ -f "$WT/SEEDED/demo.diff" ] && cp "$WT/SEEDED/demo.diff" "$HERE/seeded/$ID/demo.diff"
[ -f "$WT/SEEDED/NOTES.md" ] && cp "$WT/SEEDED/NOTES.md" "$HERE/seeded/$ID/NOTES.md"
echo "## checks $ID: $*"
"$HERE/selftest/seeded.sh" "$HERE/seeded/$ID" "$@"
