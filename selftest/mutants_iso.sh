#!/bin/sh
# Sensitivity on the catalogued mutations, in the isolated sandbox of intake_iso.sh (neither /repo nor /verif is touched):
# usage: selftest/mutants_iso.sh [runs] [ids...]    (results: /tmp/intake/mutants.tsv)
cd "$(dirname "$0")/.."
RUNS=${1:-6000}; shift 2>/dev/null
IDS=${*:-$(cut -f1 mutants/INDEX.tsv | tail -n +2)}
OUT=/tmp/intake/mutants.tsv
mkdir -p /tmp/intake
printf "id\tproperty\tsuite\tapplied\tverdict\tsignatures\n" > $OUT
for id in $IDS; do
  prop=$(awk -F'\t' -v i=$id '$1==i{print $2}' mutants/INDEX.tsv)
  suite=$(awk -F'\t' -v i=$id '$1==i{print $3}' mutants/INDEX.tsv | cut -c1-8)
  PATCH_FILE=$PWD/mutants/$id.patch CHECK_ARGS="--runs $RUNS" ./selftest/intake_iso.sh --noverify - mut-$id $prop > /tmp/intake/mut-$id.log 2>&1
  if grep -q "patch does not apply" /tmp/intake/mut-$id.log; then
    printf "%s\t%s\t%s\tno\t-\tpatch does not apply to the repaired tree\n" $id $prop "$suite" >> $OUT; continue
  fi
  rc=$(grep -o "rc=[0-9]*" /tmp/intake/mut-$id.log | head -1 | cut -d= -f2)
  sigs=$(grep -o "signature=[^ ]*" /tmp/intake/mut-$id.log | sort -u | tr '\n' ' ')
  v=$([ "$rc" = 1 ] && echo DETECTED || ([ "$rc" = 0 ] && echo missed || echo error))
  printf "%s\t%s\t%s\tyes\t%s\t%s\n" $id $prop "$suite" $v "$sigs" >> $OUT
done
