#!/bin/sh
# Sensitivity: apply each catalogued mutation of /repo, run the check of the property it breaks, undo.
# usage: selftest/mutants.sh [runs] [ids...]    (results: target/mutants.tsv)
cd "$(dirname "$0")/.."
RUNS=${1:-6000}; shift 2>/dev/null
IDS=${*:-$(cut -f1 mutants/INDEX.tsv | tail -n +2)}
OUT=target/mutants.tsv
[ -f $OUT ] || printf "id\tproperty\tsuite\tapplied\tverdict\tsignatures\n" > $OUT
for id in $IDS; do
  prop=$(awk -F'\t' -v i=$id '$1==i{print $2}' mutants/INDEX.tsv)
  suite=$(awk -F'\t' -v i=$id '$1==i{print $3}' mutants/INDEX.tsv | cut -c1-8)
  if ! git -C /repo apply --check /verif/mutants/$id.patch 2>/dev/null; then
    printf "%s\t%s\t%s\tno\t-\tpatch does not apply to the repaired tree\n" $id $prop "$suite" >> $OUT; continue
  fi
  git -C /repo apply /verif/mutants/$id.patch
  ./check $prop quick --runs $RUNS > target/mut-$id.log 2>&1; rc=$?
  git -C /repo checkout -- . 
  sigs=$(grep -o "signature=[^ ]*" target/mut-$id.log | sort -u | tr '\n' ' ')
  v=$([ $rc = 1 ] && echo DETECTED || ([ $rc = 0 ] && echo missed || echo error))
  printf "%s\t%s\t%s\tyes\t%s\t%s\n" $id $prop "$suite" $v "$sigs" >> $OUT
done
git -C /repo status --short | head -3
# leave a binary that matches the unmodified tree
(cd sim && cargo build --release --offline >/dev/null 2>&1)
