#!/bin/sh
# runs every property's thorough tier from the directory this script lives in (used with `vp run`)
# optional argument: the seed (default: VERIF_SEED from the environment, else 1)
cd "$(dirname "$0")"
[ -n "$1" ] && export VERIF_SEED=$1
export VERIF_DIR=$PWD CARGO_TARGET_DIR=$PWD/target CARGO_NET_OFFLINE=true
(cd sim && cargo build --release --offline 2>&1 | tail -2)
for p in C01 C02 C03 C04 C05 C06 C07 C08 C09 C10 C11 C12 C13 C14 C15 C16 C17 C18 C20; do
  ./target/release/perpsim check $p --tier thorough > thorough-$p.log 2>&1; rc=$?
  echo "== $p rc=$rc $(grep -E '^runs=' thorough-$p.log)"; grep -E "VIOLATION|signature=|HARNESS" thorough-$p.log | head -8
done
