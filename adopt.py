#!/usr/bin/env python3
"""adopt.py <prop> <exact signature> <slug> <status> <what...>
Runs the seeded search restricted to one signature, takes its minimised replay and records it in
known_findings.json (status 'open' or 'fixed:<commit>').  Only ever run by hand during triage."""
import json, subprocess, sys, glob, os, shutil
prop, sig, slug, status = sys.argv[1:5]
what = " ".join(sys.argv[5:])
runs = os.environ.get("ADOPT_RUNS", "4000")
env = dict(os.environ, PERPSIM_ONLY_SIG=sig.split(":",2)[2] if sig.count(":")>=2 else sig)
for f in glob.glob(f"/verif/replays/{prop}-*.json"):
    os.remove(f)
subprocess.run(["/verif/target/release/perpsim", "check", prop, "--runs", runs], env=env, stdout=subprocess.DEVNULL)
found = None
for f in sorted(glob.glob(f"/verif/replays/{prop}-*.json")):
    r = json.load(open(f))
    if r["signature"] == sig:
        if found is None or len(r["steps"]) < len(found[1]["steps"]):
            found = (f, r)
if not found:
    print("no replay with signature", sig); sys.exit(1)
dst = f"findings/{'open' if status=='open' else 'fixed'}-{slug}.json"
shutil.copy(found[0], "/verif/" + dst)
kf_path = "/verif/known_findings.json"
kf = json.load(open(kf_path)) if os.path.exists(kf_path) else []
kf = [k for k in kf if k["signature"] != sig]
kf.append({"property": prop, "signature": sig, "status": status, "what": what, "replay": dst})
kf.sort(key=lambda k: (k["property"], k["signature"]))
json.dump(kf, open(kf_path, "w"), indent=1)
print("adopted", sig, "->", dst, "steps", len(found[1]["steps"]))
